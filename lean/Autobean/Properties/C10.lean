import Autobean.Proofs.Views
import Autobean.Proofs.PyDict
/-
C10 — all views of a repeated field stay consistent with each other.

Model: `Autobean/Model/Views.lean` (raw wrapper, `handle`/`handle_splice`, every view method, the world of one raw
list with all its registered views, and the reference semantics `PyList` of Python lists).
-/
namespace Autobean.C10
open Autobean.Views

/-- `handle_splice(l, r, values)` turns the filtered indexes of the old list into the filtered indexes of the
list in which `items[l:r]` was replaced by `values` — for every `l ≤ r ≤ len(items)`, every type test and every
old and new content (unbounded sizes). -/
theorem handleSplice_correct (p : Nat → Bool) (items vals : List Item) (rawIdx : List Nat) (l r : Nat)
    (hlr : l ≤ r) (hr : r ≤ items.length) (h : rawIdx = filterIdx p items) :
    handleSplice p rawIdx l r vals = filterIdx p (items.take l ++ vals ++ items.drop r) := by
  subst h
  exact handleSplice_correct' p items vals l r hlr hr

/-- `handle()` (sent by `_notify()`) recomputes a view's indexes from the raw list as it is now. -/
theorem handle_correct (items' : List Item) (v : View) :
    (v.deliver items' .full).rawIdx = filterIdx v.pred items' ∧ (v.deliver items' .full).pred = v.pred := by
  simp [View.deliver, handle]

/-- Every raw-wrapper method that notifies with `_notify_splice(l, r, values)` passes normalised bounds
`l ≤ r ≤ len(old items)` that describe exactly the change it made: `new = old[:l] + values + old[r:]`
(all index/slice arguments, negative and out-of-range ones included).  The other methods (`clear`, `drop_many`,
extended-slice assignment/deletion, claim/unclaim) notify with `_notify()`, for which `handle_correct` applies. -/
theorem callers_normalised (items : List Item) (op : RawOp) (items' : List Item) (l r : Nat) (vals : List Item)
    (h : Raw.apply items op = .ok (items', .splice l r vals)) :
    l ≤ r ∧ r ≤ items.length ∧ items' = items.take l ++ vals ++ items.drop r := by
  cases op with
  | setInt i v =>
    obtain ⟨h1, h2, h3, h4⟩ := Raw.setInt_splice h
    subst h1; exact ⟨h2, h3, h4⟩
  | setSlice a b c vs =>
    obtain ⟨h1, h2, h3, h4⟩ := Raw.setSlice_splice h
    subst h1; exact ⟨h2, h3, h4⟩
  | delInt i =>
    obtain ⟨h1, h2, h3, h4⟩ := Raw.delInt_splice h
    subst h1; exact ⟨h2, h3, h4⟩
  | delSlice a b c =>
    obtain ⟨h1, h2, h3, h4⟩ := Raw.delSlice_splice h
    subst h1; exact ⟨h2, h3, h4⟩
  | insert i v =>
    obtain ⟨k, hk, hkl⟩ := Raw.insert_splice items i v
    simp only [Raw.apply, pure, Except.pure, hk, Except.ok.injEq, Prod.mk.injEq, Notif.splice.injEq] at h
    obtain ⟨h1, h2, h3, h4⟩ := h
    subst h1 h2 h3 h4
    exact ⟨Nat.le_refl _, hkl, rfl⟩
  | append v =>
    simp only [Raw.apply, Raw.append, PyList.append, pure, Except.pure, Except.ok.injEq, Prod.mk.injEq,
      Notif.splice.injEq] at h
    obtain ⟨h1, h2, h3, h4⟩ := h
    subst h1 h2 h3 h4
    simp
  | extend vs =>
    simp only [Raw.apply, Raw.extend, bind, Except.bind, pure, Except.pure] at h
    split at h
    · simp [throw, throwThe, MonadExceptOf.throw] at h
    · simp only [PyList.extend, Except.ok.injEq, Prod.mk.injEq, Notif.splice.injEq] at h
      obtain ⟨h1, h2, h3, h4⟩ := h
      subst h1 h2 h3 h4
      simp
  | clear => simp [Raw.apply, Raw.clear, pure, Except.pure] at h
  | pop i =>
    obtain ⟨h1, h2, h3, h4⟩ := Raw.pop_splice h
    subst h1; exact ⟨h2, h3, h4⟩
  | dropMany idxs => simp [Raw.apply, Raw.dropMany, pure, Except.pure] at h
  | reassign its => simp [Raw.apply, pure, Except.pure] at h

/-! ## The invariant: every registered view is the raw list filtered now -/

/-- One notification keeps a consistent view consistent, whatever raw-wrapper method sent it. -/
theorem deliver_inv (items items' : List Item) (op : RawOp) (n : Notif) (v : View)
    (h : Raw.apply items op = .ok (items', n)) (hv : v.rawIdx = filterIdx v.pred items) :
    (v.deliver items' n).rawIdx = filterIdx (v.deliver items' n).pred items' := by
  cases n with
  | full => simp [View.deliver, handle]
  | splice l r vals =>
    obtain ⟨h1, h2, h3⟩ := callers_normalised items op items' l r vals h
    simp only [View.deliver]
    rw [h3]
    exact handleSplice_correct v.pred items vals v.rawIdx l r h1 h2 hv

theorem stepRaw_inv (w w' : World) (op : RawOp) (hw : w.Inv) (h : w.stepRaw op = .ok w') : w'.Inv := by
  unfold World.stepRaw at h
  simp only [bind, Except.bind, pure, Except.pure] at h
  split at h
  · simp at h
  · rename_i res hres
    obtain ⟨items', n⟩ := res
    injection h with h
    subst h
    intro v hv
    simp only [List.mem_map] at hv
    obtain ⟨v0, hv0, rfl⟩ := hv
    exact deliver_inv w.items items' op n v0 hres (hw v0 hv0)

theorem updateInPlace_inv (w : World) (ri val : Nat) (hw : w.Inv) : (w.updateInPlace ri val).Inv := by
  unfold World.updateInPlace
  split
  · rename_i old hold
    intro v hv
    have := hw v hv
    simp only [filterIdx] at this ⊢
    rw [this]
    exact (filterIdxFrom_congr_ty v.pred 0 _ _ (map_ty_set_val w.items ri old val hold)).symm
  · exact hw

theorem stepMicro_inv (w w' : World) (m : Micro) (hw : w.Inv) (h : w.stepMicro m = .ok w') : w'.Inv := by
  cases m with
  | raw op => exact stepRaw_inv w w' op hw h
  | setOrUpdate upd ri v =>
    simp only [World.stepMicro] at h
    split at h
    · simp at h
    · split at h
      · simp only [pure, Except.pure, Except.ok.injEq] at h
        subst h
        exact updateInPlace_inv w ri v.val hw
      · exact stepRaw_inv w w' _ hw h

theorem runMicros_inv (ms : List Micro) (w : World) (hw : w.Inv) : (w.runMicros ms).1.Inv := by
  induction ms generalizing w with
  | nil => exact hw
  | cons m ms ih =>
    simp only [World.runMicros]
    split
    · rename_i w' hw'
      exact ih w' (stepMicro_inv w w' m hw hw')
    · exact hw

theorem register_inv (w : World) (p : Nat → Bool) (u : UpdKind) (hw : w.Inv) : (w.register p u).Inv := by
  intro v hv
  simp only [World.register, List.mem_append, List.mem_singleton] at hv
  rcases hv with hv | hv
  · exact hw v hv
  · subst hv; rfl

/-- `views_inv`, one step: whichever view (or the raw wrapper) a call goes through, and whether it succeeds,
is refused, or even fails half-way, afterwards every registered view's `_raw_indexes` is again exactly the raw
list filtered by that view's type test. -/
theorem views_inv_step (w : World) (op : World.Op) (hw : w.Inv) : (w.step op).1.Inv := by
  cases op with
  | register p u => exact register_inv w p u hw
  | raw rop =>
    simp only [World.step]
    split
    · rename_i w' hw'
      exact stepRaw_inv w w' rop hw hw'
    · exact hw
  | view k vop =>
    simp only [World.step]
    split
    · exact hw
    · split
      · exact hw
      · exact runMicros_inv _ w hw

/-- `views_inv`: the invariant holds after every history of registrations and calls through the raw wrapper
and through any of the views, for every argument (indexes, slices, steps, keys; valid or refused). -/
theorem views_inv (ops : List World.Op) (w : World) (hw : w.Inv) : (w.run ops).Inv := by
  induction ops generalizing w with
  | nil => exact hw
  | cons op ops ih =>
    simp only [World.run, List.foldl_cons]
    exact ih _ (views_inv_step w op hw)

/-- A freshly parsed field (no view touched yet) satisfies the invariant, so `views_inv` applies to every
history from there. -/
theorem views_inv_from_start (items : List Item) (ops : List World.Op) :
    (World.run { items := items, views := [] } ops).Inv :=
  views_inv ops _ (by intro v hv; simp at hv)

/-! ## Reading a view; Python list semantics of the raw wrapper -/

/-- Reading a consistent view gives the raw list filtered by the view's type test (then converted):
iteration, `len`, `view[i]` for every integer (negative and out of range → `IndexError` exactly when the filtered
list raises) and `view[start:stop:step]` for every slice. -/
theorem view_eq_filter (v : View) (items : List Item) (h : v.rawIdx = filterIdx v.pred items)
    {β : Type} (conv : Item → β) :
    (v.iter items).map conv = (filterItems v.pred items).map conv
    ∧ v.len = (filterItems v.pred items).length
    ∧ (∀ i, (v.getInt items i).map conv = (PyList.getItem (filterItems v.pred items) i).map conv)
    ∧ (∀ a b c, (v.getSlice items a b c).map (List.map conv)
        = (PyList.getSlice (filterItems v.pred items) a b c).map (List.map conv)) := by
  refine ⟨?_, ?_, ?_, ?_⟩
  · unfold View.iter; rw [h, filterIdx_filterMap_get]
  · unfold View.len; rw [h, filterIdx_length]
  · intro i; rw [View.getInt_eq v items h]
  · intro a b c; rw [View.getSlice_eq v items h]

/-- Each raw-wrapper method changes the item list exactly as the same call changes a Python list — for every
int index (negative, out of range → `IndexError`), every slice `start:stop:step` with any mix of `None`, negative,
out-of-range or reversed bounds and any non-zero step (positive and negative extended slices, `ValueError` on a size
mismatch or step 0), `insert` clamping, `pop`, `append`, `extend`, `clear`.  Restriction (documented by the
library): `__setitem__(slice)` and `extend` first refuse values that are attached or repeated
(`rep_reuse_refused`). -/
theorem rep_py_list (items : List Item) (op : RawOp) (ref : Except String (List Item))
    (href : op.pyRef items = some ref) (hre : op.valsReusable items = true) :
    (Raw.apply items op).map (·.1) = ref := by
  cases op with
  | setInt i v =>
    simp only [RawOp.pyRef, Option.some.injEq] at href; subst href
    exact Raw.setInt_ref items i v
  | setSlice a b c vals =>
    simp only [RawOp.pyRef, Option.some.injEq] at href; subst href
    exact Raw.setSlice_ref items vals a b c hre
  | delInt i =>
    simp only [RawOp.pyRef, Option.some.injEq] at href; subst href
    exact Raw.delInt_ref items i
  | delSlice a b c =>
    simp only [RawOp.pyRef, Option.some.injEq] at href; subst href
    exact Raw.delSlice_ref items a b c
  | insert i v =>
    simp only [RawOp.pyRef, Option.some.injEq] at href; subst href
    simp [Raw.apply, pure, Except.pure, Except.map, Raw.insert_ref]
  | append v =>
    simp only [RawOp.pyRef, Option.some.injEq] at href; subst href
    simp [Raw.apply, Raw.append, pure, Except.pure, Except.map]
  | extend vals =>
    simp only [RawOp.pyRef, Option.some.injEq] at href; subst href
    simp only [RawOp.valsReusable] at hre
    simp [Raw.apply, Raw.extend, hre, pure, Except.pure, Except.map]
  | clear =>
    simp only [RawOp.pyRef, Option.some.injEq] at href; subst href
    simp [Raw.apply, Raw.clear, pure, Except.pure, Except.map]
  | pop i =>
    simp only [RawOp.pyRef, Option.some.injEq] at href; subst href
    exact Raw.pop_ref items i
  | dropMany idxs => simp [RawOp.pyRef] at href
  | reassign its => simp [RawOp.pyRef] at href

/-- Values that are attached or repeated are refused before anything is touched. -/
theorem rep_reuse_refused (items : List Item) (op : RawOp) (hre : op.valsReusable items = false) :
    Raw.apply items op = .error "ValueError:reuse" := by
  cases op <;> simp [RawOp.valsReusable] at hre
  · simp only [Raw.apply, Raw.setSlice, hre, throw, throwThe, MonadExceptOf.throw, bind, Except.bind,
      Bool.not_false, if_true]
  · simp only [Raw.apply, Raw.extend, hre, throw, throwThe, MonadExceptOf.throw, bind, Except.bind,
      Bool.not_false, if_true]

/-! ## Python list semantics of the views -/

/-- Every list method of a view (`RepeatedValueWrapper`: string views, filtered node views, mapping views used
as sequences) acts on the view's filtered — and converted — list exactly as the same call acts on a Python list:
`view[i] = x`, `view[a:b:c] = xs`, `del view[i]`, `del view[a:b:c]`, `insert`, `append`, `extend`, `clear`, `pop`,
`remove` (first match), `discard` (all matches), for every int index, every slice with `None`/negative/out-of-range/
reversed bounds and every non-zero step (positive and negative), raising exactly when the list raises
(`IndexError`, `ValueError` for step 0, for an extended slice of another size, for a value that is not there) —
and a call that raises changes nothing.  `conv` is any conversion that does not see whether `update_raw` changed
the old object in place or the object was replaced (`id` for views that never update in place; the value for
string views).
Hypotheses: the view is consistent (`views_inv`), the offered values have the view's element type.
Documented restrictions: `extend` refuses attached or repeated nodes (`hre`); assigning to a step-1 slice through a
view requires as many values as the slice selects (`hsz`; otherwise `view_setSlice_size_refused`). -/
theorem view_py_list {β : Type} (w : World) (k : Nat) (v : View) (op : ViewOp)
    (ref : Except String (List Item)) (conv : Item → β)
    (hk : w.views[k]? = some v) (hv : v.rawIdx = filterIdx v.pred w.items)
    (hconv : ∀ old new : Item, v.upd.applies old new = true → conv { old with val := new.val } = conv new)
    (hvals : ∀ x ∈ op.vals, v.pred x.ty = true)
    (hre : ∀ vals, op = .extend vals → Raw.reusable w.items vals = true)
    (hsz : ∀ a b c vals s e, op = .setSlice a b c vals →
      PyList.sliceIndices (filterItems v.pred w.items).length a b c = .ok (s, e, 1) →
      (PyList.rangeList s e 1).length = vals.length)
    (href : op.pyRef (filterItems v.pred w.items) = some ref) :
    ViewCallSpec w k v op ref conv := by
  cases op with
  | setInt i x =>
    simp only [ViewOp.pyRef, Option.some.injEq] at href; subst href
    exact spec_setInt w k v conv i x hk hv hconv (hvals x (by simp [ViewOp.vals]))
  | setSlice a b c vals =>
    simp only [ViewOp.pyRef, Option.some.injEq] at href; subst href
    exact spec_setSlice w k v conv a b c vals hk hv hconv (by simpa [ViewOp.vals] using hvals)
      (fun s e h => hsz a b c vals s e rfl h)
  | delInt i =>
    simp only [ViewOp.pyRef, Option.some.injEq] at href; subst href
    exact spec_delInt w k v conv i hk hv
  | delSlice a b c =>
    simp only [ViewOp.pyRef, Option.some.injEq] at href; subst href
    exact spec_delSlice w k v conv a b c hk hv
  | insert i x =>
    simp only [ViewOp.pyRef, Option.some.injEq] at href; subst href
    exact spec_insert w k v conv i x hk hv (hvals x (by simp [ViewOp.vals]))
  | append x =>
    simp only [ViewOp.pyRef, Option.some.injEq] at href; subst href
    exact spec_append w k v conv x hk (hvals x (by simp [ViewOp.vals]))
  | extend vals =>
    simp only [ViewOp.pyRef, Option.some.injEq] at href; subst href
    exact spec_extend w k v conv vals hk (by simpa [ViewOp.vals] using hvals) (hre vals rfl)
  | clear =>
    simp only [ViewOp.pyRef, Option.some.injEq] at href; subst href
    exact spec_clear w k v conv hk hv
  | pop i =>
    simp only [ViewOp.pyRef, Option.some.injEq] at href; subst href
    exact spec_pop w k v conv i hk hv
  | remove val =>
    simp only [ViewOp.pyRef, Option.some.injEq] at href; subst href
    exact spec_remove w k v conv val hk hv
  | discard val =>
    simp only [ViewOp.pyRef, Option.some.injEq] at href; subst href
    exact spec_discard w k v conv val hk hv
  | setKeyRaw key x => simp [ViewOp.pyRef] at href
  | setKeyVal key x => simp [ViewOp.pyRef] at href
  | delKey key => simp [ViewOp.pyRef] at href
  | popKey key d => simp [ViewOp.pyRef] at href

/-- The documented restriction of slice assignment through a view: when the number of values differs from the
number of selected elements the view raises `ValueError` (for step 1 too, where a list would resize) and nothing
changes. -/
theorem view_setSlice_size_refused (w : World) (k : Nat) (v : View) (a b c : Option Int) (vals : List Item)
    (s e st : Int) (hk : w.views[k]? = some v) (hv : v.rawIdx = filterIdx v.pred w.items)
    (hs : PyList.sliceIndices (filterItems v.pred w.items).length a b c = .ok (s, e, st))
    (hne : (PyList.rangeList s e st).length ≠ vals.length) :
    w.step (.view k (.setSlice a b c vals)) = (w, some "ValueError:size") :=
  setSlice_size_refused w k v a b c vals s e st hk hv hs hne

/-- (Superseded by `meta_py_dict` below, which compares with the independent reference `Model/PyDict.lean`; kept.)
Mapping views (`raw_meta`, `meta`): on a consistent view a key denotes the FIRST element in list order whose
key matches (`view[key]`, `key in view`), and every key operation is the positional operation at that position
(to which `view_py_list` applies) or, when no element matches, `KeyError` / an `append` / the default.
Partial: this reduces the key operations to the list operations; it is not stated against an independent
ordered-dictionary reference (the harness compares with ordered first-match pairs on the real objects). -/
theorem meta_py_dict_partial (v : View) (items : List Item) (hv : v.rawIdx = filterIdx v.pred items)
    (key : Nat) (x : Item) (d : Bool) :
    v.findKey items key = (filterItems v.pred items).findIdx? (fun y => y.val == key)
    ∧ v.getKey items key = (match (filterItems v.pred items).find? (fun y => y.val == key) with
        | some y => .ok y
        | none => .error "KeyError")
    ∧ v.containsKey items key = (filterItems v.pred items).any (fun y => y.val == key)
    ∧ v.apply items (.delKey key) = (match v.findKey items key with
        | some i => v.apply items (.delInt i)
        | none => .error "KeyError")
    ∧ v.apply items (.popKey key d) = (match v.findKey items key with
        | some i => v.apply items (.pop i)
        | none => if d then .ok [] else .error "KeyError")
    ∧ v.apply items (.setKeyRaw key x) = (match v.findKey items key with
        | some i => v.apply items (.setInt i x)
        | none => v.apply items (.append x))
    ∧ v.apply items (.setKeyVal key x) = (match v.findKey items key with
        | some _ => .ok []
        | none => v.apply items (.append x)) := by
  obtain ⟨h1, h2, h3⟩ := findKey_eq v items hv key
  refine ⟨h1, h2, h3, ?_, ?_, ?_, ?_⟩ <;> simp only [View.apply] <;> cases v.findKey items key <;> rfl

/-! ## Mapping views against an independent ordered-dictionary reference (`Model/PyDict.lean`) -/

/-- A mapping view read as a dictionary: the `(key, value)` entries of the view's items in list order.  The key of an
item is its value code (`item.key`); `conv` is what the view shows of an item (the item itself for `raw_meta`, its
`.value` for `meta`; any function of the item). -/
def dictOf {β : Type} (v : View) (conv : Item → β) (items : List Item) : PyDict.PyMultiDict β :=
  (filterItems v.pred items).map fun x => (x.val, conv x)

/-- What the caller observes of one mapping call: the dictionary afterwards, or the exception. -/
def dictOutcome {β : Type} (v : View) (conv : Item → β) (r : World × Option String) :
    Except String (PyDict.PyMultiDict β) :=
  (World.outcome r).map (dictOf v conv)

theorem dictOf_findIdx {β : Type} (v : View) (conv : Item → β) (items : List Item) (key : Nat) :
    (dictOf v conv items).findIdx? (fun p => p.1 == key) = (filterItems v.pred items).findIdx? (fun y => y.val == key) :=
  PyDict.findIdx_map_key (filterItems v.pred items) (fun x => x.val) conv key

theorem step_key_none (w : World) (k : Nat) (v : View) (op : ViewOp) (hk : w.views[k]? = some v)
    {e : String} (hap : v.apply w.items op = .error e) : w.step (.view k op) = (w, some e) := by
  rw [step_view_eq w k v op hk, hap]

theorem step_key_same (w : World) (k : Nat) (v : View) (op op' : ViewOp) (hk : w.views[k]? = some v)
    (hap : v.apply w.items op = v.apply w.items op') : w.step (.view k op) = w.step (.view k op') := by
  rw [step_view_eq w k v op hk, step_view_eq w k v op' hk, hap]

/-- **Reading a mapping view = reading the reference dictionary.**  `view[key]` (first match, `KeyError`),
`key in view`, `keys()`, `values()`, `items()` (list order) and `len`. -/
theorem meta_py_dict_read {β : Type} (v : View) (items : List Item) (hv : v.rawIdx = filterIdx v.pred items)
    (conv : Item → β) (key : Nat) :
    (v.getKey items key).map conv = PyDict.get (dictOf v conv items) key
    ∧ v.containsKey items key = PyDict.contains (dictOf v conv items) key
    ∧ (v.iter items).map (·.val) = PyDict.keys (dictOf v conv items)
    ∧ (v.iter items).map conv = PyDict.values (dictOf v conv items)
    ∧ (v.iter items).map (fun x => (x.val, conv x)) = PyDict.items (dictOf v conv items)
    ∧ v.len = PyDict.len (dictOf v conv items) := by
  obtain ⟨_, h2, h3⟩ := findKey_eq v items hv key
  have hiter : v.iter items = filterItems v.pred items := by
    unfold View.iter; rw [hv, filterIdx_filterMap_get]
  refine ⟨?_, ?_, ?_, ?_, ?_, ?_⟩
  · rw [h2]
    unfold dictOf
    rw [PyDict.get_map_key (filterItems v.pred items) (fun x => x.val) conv key]
    cases (filterItems v.pred items).find? (fun y => y.val == key) <;> rfl
  · rw [h3, PyDict.contains_eq_any]; simp [dictOf, List.any_map, Function.comp_def]
  · rw [hiter]; simp [PyDict.keys, dictOf]
  · rw [hiter]; simp [PyDict.values, dictOf]
  · rw [hiter]; rfl
  · unfold View.len; rw [hv, filterIdx_length]; simp [PyDict.len, dictOf]

/-- **`del view[key]`** removes the first entry with that key, or raises `KeyError` and changes nothing. -/
theorem meta_py_dict_del {β : Type} (w : World) (k : Nat) (v : View) (conv : Item → β) (key : Nat)
    (hk : w.views[k]? = some v) (hv : v.rawIdx = filterIdx v.pred w.items) :
    dictOutcome v conv (w.step (.view k (.delKey key))) = PyDict.del (dictOf v conv w.items) key
    ∧ ((w.step (.view k (.delKey key))).2 ≠ none → (w.step (.view k (.delKey key))).1 = w) := by
  obtain ⟨hfk, _, _⟩ := findKey_eq v w.items hv key
  have hD := dictOf_findIdx v conv w.items key
  cases hfi : (filterItems v.pred w.items).findIdx? (fun y => y.val == key) with
  | none =>
    have hap : v.apply w.items (.delKey key) = .error "KeyError" := by simp [View.apply, hfk, hfi]
    rw [step_key_none w k v _ hk hap, PyDict.del_of_findIdx_none _ _ (hD.trans hfi)]
    exact ⟨rfl, fun _ => rfl⟩
  | some i =>
    have hap : v.apply w.items (.delKey key) = v.apply w.items (.delInt i) := by simp [View.apply, hfk, hfi]
    rw [step_key_same w k v _ _ hk hap, PyDict.del_of_findIdx_some _ _ (hD.trans hfi)]
    have hi := PyDict.findIdx_some_lt hfi
    obtain ⟨h1, h2⟩ := spec_delInt w k v (fun x => (x.val, conv x)) i hk hv
    refine ⟨?_, h2⟩
    have href : PyList.delItem (filterItems v.pred w.items) (i : Int) = .ok ((filterItems v.pred w.items).eraseIdx i) := by
      simp [PyList.delItem, PyList.normIndex_of_nat hi, bind, Except.bind, pure, Except.pure]
    rw [href] at h1
    unfold dictOutcome
    refine h1.trans ?_
    simp [Except.map, dictOf, PyDict.map_eraseIdx]

/-- **`view.pop(key)` / `view.pop(key, default)`** removes the first entry with that key; for a missing key the
dictionary is unchanged (default given) or `KeyError` is raised and nothing changes. -/
theorem meta_py_dict_pop {β : Type} (w : World) (k : Nat) (v : View) (conv : Item → β) (key : Nat) (dflt : Bool)
    (hk : w.views[k]? = some v) (hv : v.rawIdx = filterIdx v.pred w.items) :
    dictOutcome v conv (w.step (.view k (.popKey key dflt))) = (PyDict.pop (dictOf v conv w.items) key dflt).map (·.2)
    ∧ ((w.step (.view k (.popKey key dflt))).2 ≠ none → (w.step (.view k (.popKey key dflt))).1 = w) := by
  obtain ⟨hfk, _, _⟩ := findKey_eq v w.items hv key
  have hD := dictOf_findIdx v conv w.items key
  cases hfi : (filterItems v.pred w.items).findIdx? (fun y => y.val == key) with
  | none =>
    rw [PyDict.pop_of_findIdx_none _ _ _ (hD.trans hfi)]
    cases dflt with
    | false =>
      have hap : v.apply w.items (.popKey key false) = .error "KeyError" := by simp [View.apply, hfk, hfi]
      rw [step_key_none w k v _ hk hap]
      exact ⟨rfl, fun _ => rfl⟩
    | true =>
      have hap : v.apply w.items (.popKey key true) = .ok [] := by simp [View.apply, hfk, hfi, pure, Except.pure]
      rw [step_view_eq w k v _ hk, hap]
      exact ⟨rfl, fun _ => rfl⟩
  | some i =>
    have hap : v.apply w.items (.popKey key dflt) = v.apply w.items (.pop i) := by simp [View.apply, hfk, hfi]
    obtain ⟨p, _, hpop⟩ := PyDict.pop_of_findIdx_some (dictOf v conv w.items) key dflt (hD.trans hfi)
    rw [step_key_same w k v _ _ hk hap, hpop]
    have hi := PyDict.findIdx_some_lt hfi
    obtain ⟨h1, h2⟩ := spec_pop w k v (fun x => (x.val, conv x)) i hk hv
    refine ⟨?_, h2⟩
    have href : (PyList.pop (filterItems v.pred w.items) (i : Int)).map (·.1)
        = .ok ((filterItems v.pred w.items).eraseIdx i) := by
      simp [PyList.pop, PyList.normIndex_of_nat hi, bind, Except.bind, pure, Except.pure, List.getElem?_eq_getElem hi,
        Except.map]
    rw [href] at h1
    unfold dictOutcome
    refine h1.trans ?_
    simp [Except.map, dictOf, PyDict.map_eraseIdx]

/-- **`raw_meta[key] = item`** (the item carries that key: `x.val = key`): the first entry with the key gets the new
value in place (position kept), or `(key, item)` is appended.  Never raises in the model (re-use of attached nodes is
C19's). -/
theorem meta_py_dict_set_raw {β : Type} (w : World) (k : Nat) (v : View) (conv : Item → β) (key : Nat) (x : Item)
    (hk : w.views[k]? = some v) (hv : v.rawIdx = filterIdx v.pred w.items)
    (hconv : ∀ old new : Item, v.upd.applies old new = true → conv { old with val := new.val } = conv new)
    (hx : v.pred x.ty = true) (hkey : x.val = key) :
    dictOutcome v conv (w.step (.view k (.setKeyRaw key x))) = .ok (PyDict.set (dictOf v conv w.items) key (conv x)) := by
  obtain ⟨hfk, _, _⟩ := findKey_eq v w.items hv key
  have hD := dictOf_findIdx v conv w.items key
  have hconv' : ∀ old new : Item, v.upd.applies old new = true →
      (fun y : Item => (y.val, conv y)) { old with val := new.val } = (fun y : Item => (y.val, conv y)) new := by
    intro old new h; simp [hconv old new h]
  cases hfi : (filterItems v.pred w.items).findIdx? (fun y => y.val == key) with
  | none =>
    have hap : v.apply w.items (.setKeyRaw key x) = v.apply w.items (.append x) := by simp [View.apply, hfk, hfi]
    rw [step_key_same w k v _ _ hk hap, PyDict.set_of_findIdx_none _ _ _ (hD.trans hfi)]
    obtain ⟨h1, _⟩ := spec_append w k v (fun y => (y.val, conv y)) x hk hx
    unfold dictOutcome
    refine h1.trans ?_
    simp [Except.map, dictOf, PyList.append, hkey]
  | some i =>
    have hap : v.apply w.items (.setKeyRaw key x) = v.apply w.items (.setInt i x) := by simp [View.apply, hfk, hfi]
    rw [step_key_same w k v _ _ hk hap, PyDict.set_of_findIdx_some _ _ _ (hD.trans hfi)]
    have hi := PyDict.findIdx_some_lt hfi
    obtain ⟨h1, _⟩ := spec_setInt w k v (fun y => (y.val, conv y)) i x hk hv hconv' hx
    have href : PyList.setItem (filterItems v.pred w.items) (i : Int) x = .ok ((filterItems v.pred w.items).set i x) := by
      simp [PyList.setItem, PyList.normIndex_of_nat hi, bind, Except.bind, pure, Except.pure]
    rw [href] at h1
    unfold dictOutcome
    refine h1.trans ?_
    simp [Except.map, dictOf, List.map_set, hkey]

/-- **`meta[key] = value`** (`x = MetaItem.from_value(key, value)`, so `x.val = key`): a missing key appends
`(key, x)`.  For an existing key the Python assigns `item.value = value` on the first matching item — the item object
stays where it is and the list is not touched; the item's own value is outside this model (it is C09's
`opt_value_roundtrip`), so at this level the entry keeps its value `b` and the result is `set d key b`, i.e. `d`. -/
theorem meta_py_dict_set_val {β : Type} (w : World) (k : Nat) (v : View) (conv : Item → β) (key : Nat) (x : Item)
    (hk : w.views[k]? = some v) (hv : v.rawIdx = filterIdx v.pred w.items)
    (hx : v.pred x.ty = true) (hkey : x.val = key) :
    dictOutcome v conv (w.step (.view k (.setKeyVal key x))) =
      .ok (PyDict.set (dictOf v conv w.items) key
        (match PyDict.get (dictOf v conv w.items) key with
          | .ok b => b
          | .error _ => conv x))
    ∧ (PyDict.contains (dictOf v conv w.items) key = true → (w.step (.view k (.setKeyVal key x))).1 = w) := by
  obtain ⟨hfk, _, _⟩ := findKey_eq v w.items hv key
  have hD := dictOf_findIdx v conv w.items key
  cases hfi : (filterItems v.pred w.items).findIdx? (fun y => y.val == key) with
  | none =>
    have hap : v.apply w.items (.setKeyVal key x) = v.apply w.items (.append x) := by simp [View.apply, hfk, hfi]
    rw [step_key_same w k v _ _ hk hap, PyDict.set_of_findIdx_none _ _ _ (hD.trans hfi),
      PyDict.get_of_findIdx_none _ _ (hD.trans hfi)]
    obtain ⟨h1, _⟩ := spec_append w k v (fun y => (y.val, conv y)) x hk hx
    refine ⟨?_, ?_⟩
    · unfold dictOutcome
      refine h1.trans ?_
      simp [Except.map, dictOf, PyList.append, hkey]
    · intro hc
      rw [PyDict.contains_eq_any] at hc
      have : (dictOf v conv w.items).findIdx? (fun p => p.1 == key) ≠ none := by
        intro hn
        rw [List.findIdx?_eq_none_iff] at hn
        rw [List.any_eq_true] at hc
        obtain ⟨p, hp, hpk⟩ := hc
        exact absurd hpk (by simpa using hn p hp)
      exact absurd (hD.trans hfi) this
  | some i =>
    have hap : v.apply w.items (.setKeyVal key x) = .ok [] := by simp [View.apply, hfk, hfi, pure, Except.pure]
    obtain ⟨p, _, _, hg⟩ := PyDict.get_of_findIdx_some (dictOf v conv w.items) key (hD.trans hfi)
    rw [step_view_eq w k v _ hk, hap, hg]
    simp only
    rw [PyDict.set_get_self _ _ _ hg]
    exact ⟨rfl, fun _ => rfl⟩

/-- **`meta_py_dict`** — the mapping views (`raw_meta`, `meta`) against the independent ordered-dictionary reference of
`Model/PyDict.lean` (association list, first match): on a consistent view (`views_inv`), with `d` the view's
`(key, value)` list,
* reading: `view[key]`, `key in view`, `keys()`, `values()`, `items()`, `len` are `get`, `contains`, `keys`, … of `d`;
* `del view[key]` = `del d key` (missing key: `KeyError`, nothing changed);
* `view.pop(key[, default])` leaves `pop d key` (missing key: unchanged / `KeyError`, nothing changed);
* `raw_meta[key] = item` and `meta[key] = value` leave `set d key …`: first match updated in place, else appended.
Supersedes `meta_py_dict_partial`. -/
theorem meta_py_dict {β : Type} (w : World) (k : Nat) (v : View) (conv : Item → β) (key : Nat) (x : Item) (dflt : Bool)
    (hk : w.views[k]? = some v) (hv : v.rawIdx = filterIdx v.pred w.items)
    (hconv : ∀ old new : Item, v.upd.applies old new = true → conv { old with val := new.val } = conv new)
    (hx : v.pred x.ty = true) (hkey : x.val = key) :
    let d := dictOf v conv w.items
    (v.getKey w.items key).map conv = PyDict.get d key
    ∧ v.containsKey w.items key = PyDict.contains d key
    ∧ (v.iter w.items).map (·.val) = PyDict.keys d
    ∧ (v.iter w.items).map conv = PyDict.values d
    ∧ v.len = PyDict.len d
    ∧ dictOutcome v conv (w.step (.view k (.delKey key))) = PyDict.del d key
    ∧ dictOutcome v conv (w.step (.view k (.popKey key dflt))) = (PyDict.pop d key dflt).map (·.2)
    ∧ dictOutcome v conv (w.step (.view k (.setKeyRaw key x))) = .ok (PyDict.set d key (conv x))
    ∧ dictOutcome v conv (w.step (.view k (.setKeyVal key x))) =
        .ok (PyDict.set d key (match PyDict.get d key with
          | .ok b => b
          | .error _ => conv x))
    ∧ (∀ op, op = ViewOp.delKey key ∨ op = ViewOp.popKey key dflt →
        (w.step (.view k op)).2 ≠ none → (w.step (.view k op)).1 = w) := by
  intro d
  obtain ⟨r1, r2, r3, r4, _, r6⟩ := meta_py_dict_read v w.items hv conv key
  refine ⟨r1, r2, r3, r4, r6, (meta_py_dict_del w k v conv key hk hv).1, (meta_py_dict_pop w k v conv key dflt hk hv).1,
    meta_py_dict_set_raw w k v conv key x hk hv hconv hx hkey, (meta_py_dict_set_val w k v conv key x hk hv hx hkey).1, ?_⟩
  rintro op (rfl | rfl)
  · exact (meta_py_dict_del w k v conv key hk hv).2
  · exact (meta_py_dict_pop w k v conv key dflt hk hv).2

/-! ## Non-vacuity: the hypotheses are satisfiable by concrete, non-trivial states -/

/-- tags `#a ^b #c` plus a standalone comment; type tags 0 = Tag, 1 = Link, 2 = BlockComment -/
private def items0 : List Item := [⟨1, 0, 5⟩, ⟨2, 1, 6⟩, ⟨3, 0, 7⟩, ⟨4, 2, 0⟩]
private def isTag : Nat → Bool := fun t => t == 0
private def isLink : Nat → Bool := fun t => t == 1
private def world0 : World := (({ items := items0 } : World).register isTag .always).register isLink .never

example : world0.views.map (·.rawIdx) = [[0, 2], [1]] := by decide
example : world0.Inv := register_inv _ _ _ (register_inv _ _ _ (by intro v hv; simp at hv))

/-- `handleSplice_correct` on a concrete splice: `raw[1:3] = [Tag, Link]` moves the tag view from `[0, 2]` to `[0, 1]`. -/
example : handleSplice isTag [0, 2] 1 3 [⟨9, 0, 1⟩, ⟨10, 1, 2⟩] = [0, 1] := by
  have h := handleSplice_correct isTag items0 [⟨9, 0, 1⟩, ⟨10, 1, 2⟩] [0, 2] 1 3 (by decide) (by decide) (by decide)
  rw [h]; decide

/-- `callers_normalised` is not vacuous: a negative index and a reversed slice both notify normalised bounds. -/
example : Raw.apply items0 (.setInt (-1) ⟨9, 0, 1⟩)
    = .ok ([⟨1, 0, 5⟩, ⟨2, 1, 6⟩, ⟨3, 0, 7⟩, ⟨9, 0, 1⟩], .splice 3 4 [⟨9, 0, 1⟩]) := by rfl
example : Raw.apply items0 (.setSlice (some 3) (some 1) none [⟨9, 0, 1⟩])
    = .ok ([⟨1, 0, 5⟩, ⟨2, 1, 6⟩, ⟨3, 0, 7⟩, ⟨9, 0, 1⟩, ⟨4, 2, 0⟩], .splice 3 3 [⟨9, 0, 1⟩]) := by rfl
example : Raw.apply items0 (.insert (-1) ⟨9, 1, 1⟩)
    = .ok ([⟨1, 0, 5⟩, ⟨2, 1, 6⟩, ⟨3, 0, 7⟩, ⟨9, 1, 1⟩, ⟨4, 2, 0⟩], .splice 3 3 [⟨9, 1, 1⟩]) := by rfl

/-- `views_inv` after a mixed history through the raw wrapper and both views. -/
example : (world0.run [.raw (.setInt (-1) ⟨9, 0, 1⟩), .view 0 (.delSlice none none (some (-2))),
    .view 1 (.insert (-5) ⟨10, 1, 2⟩), .raw (.delSlice (some 3) (some 1) none), .view 0 (.setInt 0 ⟨11, 0, 8⟩)]).Inv :=
  views_inv _ _ (register_inv _ _ _ (register_inv _ _ _ (by intro v hv; simp at hv)))

/-- …and that history really changes the list (the items component does not depend on the views). -/
example : (world0.run [.view 1 (.insert (-5) ⟨10, 1, 2⟩), .raw (.setInt (-1) ⟨9, 0, 1⟩)]).items.map (·.id)
    = [10, 1, 2, 3, 9] := by decide

/-- `view_py_list` instantiated: `tags[::-1] = ['x', 'y']` on the tag view of `#a ^b #c` (in-place update). -/
example : ViewCallSpec world0 0 ⟨isTag, .always, [0, 2]⟩ (.setSlice none none (some (-1)) [⟨9, 0, 1⟩, ⟨10, 0, 2⟩])
    (.ok [⟨10, 0, 2⟩, ⟨9, 0, 1⟩]) (fun x => x.val) := by
  apply view_py_list world0 0 ⟨isTag, .always, [0, 2]⟩ _ _ (fun x => x.val) rfl (by decide)
  · intro old new _; rfl
  · decide
  · intro vals h; cases h
  · intro a b c vals s e h hs
    injection h with h1 h2 h3 h4
    subst h1 h2 h3 h4
    have := (PyList.sliceIndices_ok hs).2.1
    simp at this
  · rfl

/-- `rep_py_list` instantiated on an extended negative slice. -/
example : (Raw.apply items0 (.delSlice none none (some (-3)))).map (·.1) = .ok [⟨2, 1, 6⟩, ⟨3, 0, 7⟩] := by
  rw [rep_py_list items0 (.delSlice none none (some (-3))) _ rfl rfl]; rfl

/-! `meta_py_dict` instantiated: meta items `a: ⏎ ; comment ⏎ b: ⏎ a:` (type tag 3 = MetaItem, key codes 5 = `a`, 6 = `b`; the
key `a` occurs twice), the mapping view shows each item by its identity. -/
private def itemsM : List Item := [⟨1, 3, 5⟩, ⟨2, 2, 0⟩, ⟨3, 3, 6⟩, ⟨4, 3, 5⟩]
private def isMeta : Nat → Bool := fun t => t == 3
private def worldM : World := ({ items := itemsM } : World).register isMeta .never
private def viewM : View := ⟨isMeta, .never, [0, 2, 3]⟩

example : worldM.views[0]? = some viewM := rfl
example : viewM.rawIdx = filterIdx viewM.pred worldM.items := by decide
example : dictOf viewM (·.id) worldM.items = [(5, 1), (6, 3), (5, 4)] := by decide
/-- `del raw_meta['a']` removes the FIRST `a`; `raw_meta['a'] = item` replaces the first `a` in place; `raw_meta['c'] = item`
appends; `raw_meta.pop('z', default)` changes nothing; `del raw_meta['z']` is `KeyError`. -/
example : dictOutcome viewM (·.id) (worldM.step (.view 0 (.delKey 5))) = .ok [(6, 3), (5, 4)] := by
  rw [(meta_py_dict_del worldM 0 viewM (·.id) 5 rfl (by decide)).1]; rfl
example : dictOutcome viewM (·.id) (worldM.step (.view 0 (.setKeyRaw 5 ⟨9, 3, 5⟩))) = .ok [(5, 9), (6, 3), (5, 4)] := by
  rw [meta_py_dict_set_raw worldM 0 viewM (·.id) 5 ⟨9, 3, 5⟩ rfl (by decide)
    (by intro o n h; simp [viewM, UpdKind.applies] at h) rfl rfl]; rfl
example : dictOutcome viewM (·.id) (worldM.step (.view 0 (.setKeyVal 7 ⟨9, 3, 7⟩))) =
    .ok [(5, 1), (6, 3), (5, 4), (7, 9)] := by
  rw [(meta_py_dict_set_val worldM 0 viewM (·.id) 7 ⟨9, 3, 7⟩ rfl (by decide) rfl rfl).1]; rfl
example : dictOutcome viewM (·.id) (worldM.step (.view 0 (.popKey 8 true))) = .ok [(5, 1), (6, 3), (5, 4)] := by
  rw [(meta_py_dict_pop worldM 0 viewM (·.id) 8 true rfl (by decide)).1]; rfl
example : dictOutcome viewM (·.id) (worldM.step (.view 0 (.delKey 8))) = .error "KeyError" := by
  rw [(meta_py_dict_del worldM 0 viewM (·.id) 8 rfl (by decide)).1]; rfl
example : PyDict.pop [(5, 1), (6, 3), (5, 4)] 5 false = .ok (some 1, [(6, 3), (5, 4)]) := rfl

end Autobean.C10
