import Autobean.Proofs.Views
/-
C10 — all views of a repeated field stay consistent with each other.

Model: `Autobean/Model/Views.lean` (raw wrapper, `handle`/`handle_splice`, every view method, the world of one raw
list with all its registered views, and the reference semantics `PyList` of Python lists).
-/
namespace Autobean.C10
open Autobean.Views

/-- `handle_splice(l, r, values)` turns the filtered indexes of the old list into the filtered indexes of the
list in which `items[l:r]` was replaced by `values` — for every `l ≤ r ≤ len(items)`, every type test and every
old and new content (unbounded sizes). -/
theorem handleSplice_correct (p : Nat → Bool) (items vals : List Item) (rawIdx : List Nat) (l r : Nat)
    (hlr : l ≤ r) (hr : r ≤ items.length) (h : rawIdx = filterIdx p items) :
    handleSplice p rawIdx l r vals = filterIdx p (items.take l ++ vals ++ items.drop r) := by
  subst h
  exact handleSplice_correct' p items vals l r hlr hr

/-- `handle()` (sent by `_notify()`) recomputes a view's indexes from the raw list as it is now. -/
theorem handle_correct (items' : List Item) (v : View) :
    (v.deliver items' .full).rawIdx = filterIdx v.pred items' ∧ (v.deliver items' .full).pred = v.pred := by
  simp [View.deliver, handle]

/-- Every raw-wrapper method that notifies with `_notify_splice(l, r, values)` passes normalised bounds
`l ≤ r ≤ len(old items)` that describe exactly the change it made: `new = old[:l] + values + old[r:]`
(all index/slice arguments, negative and out-of-range ones included).  The other methods (`clear`, `drop_many`,
extended-slice assignment/deletion, claim/unclaim) notify with `_notify()`, for which `handle_correct` applies. -/
theorem callers_normalised (items : List Item) (op : RawOp) (items' : List Item) (l r : Nat) (vals : List Item)
    (h : Raw.apply items op = .ok (items', .splice l r vals)) :
    l ≤ r ∧ r ≤ items.length ∧ items' = items.take l ++ vals ++ items.drop r := by
  cases op with
  | setInt i v =>
    obtain ⟨h1, h2, h3, h4⟩ := Raw.setInt_splice h
    subst h1; exact ⟨h2, h3, h4⟩
  | setSlice a b c vs =>
    obtain ⟨h1, h2, h3, h4⟩ := Raw.setSlice_splice h
    subst h1; exact ⟨h2, h3, h4⟩
  | delInt i =>
    obtain ⟨h1, h2, h3, h4⟩ := Raw.delInt_splice h
    subst h1; exact ⟨h2, h3, h4⟩
  | delSlice a b c =>
    obtain ⟨h1, h2, h3, h4⟩ := Raw.delSlice_splice h
    subst h1; exact ⟨h2, h3, h4⟩
  | insert i v =>
    obtain ⟨k, hk, hkl⟩ := Raw.insert_splice items i v
    simp only [Raw.apply, pure, Except.pure, hk, Except.ok.injEq, Prod.mk.injEq, Notif.splice.injEq] at h
    obtain ⟨h1, h2, h3, h4⟩ := h
    subst h1 h2 h3 h4
    exact ⟨Nat.le_refl _, hkl, rfl⟩
  | append v =>
    simp only [Raw.apply, Raw.append, PyList.append, pure, Except.pure, Except.ok.injEq, Prod.mk.injEq,
      Notif.splice.injEq] at h
    obtain ⟨h1, h2, h3, h4⟩ := h
    subst h1 h2 h3 h4
    simp
  | extend vs =>
    simp only [Raw.apply, Raw.extend, bind, Except.bind, pure, Except.pure] at h
    split at h
    · simp [throw, throwThe, MonadExceptOf.throw] at h
    · simp only [PyList.extend, Except.ok.injEq, Prod.mk.injEq, Notif.splice.injEq] at h
      obtain ⟨h1, h2, h3, h4⟩ := h
      subst h1 h2 h3 h4
      simp
  | clear => simp [Raw.apply, Raw.clear, pure, Except.pure] at h
  | pop i =>
    obtain ⟨h1, h2, h3, h4⟩ := Raw.pop_splice h
    subst h1; exact ⟨h2, h3, h4⟩
  | dropMany idxs => simp [Raw.apply, Raw.dropMany, pure, Except.pure] at h
  | reassign its => simp [Raw.apply, pure, Except.pure] at h

/-! ## The invariant: every registered view is the raw list filtered now -/

/-- One notification keeps a consistent view consistent, whatever raw-wrapper method sent it. -/
theorem deliver_inv (items items' : List Item) (op : RawOp) (n : Notif) (v : View)
    (h : Raw.apply items op = .ok (items', n)) (hv : v.rawIdx = filterIdx v.pred items) :
    (v.deliver items' n).rawIdx = filterIdx (v.deliver items' n).pred items' := by
  cases n with
  | full => simp [View.deliver, handle]
  | splice l r vals =>
    obtain ⟨h1, h2, h3⟩ := callers_normalised items op items' l r vals h
    simp only [View.deliver]
    rw [h3]
    exact handleSplice_correct v.pred items vals v.rawIdx l r h1 h2 hv

theorem stepRaw_inv (w w' : World) (op : RawOp) (hw : w.Inv) (h : w.stepRaw op = .ok w') : w'.Inv := by
  unfold World.stepRaw at h
  simp only [bind, Except.bind, pure, Except.pure] at h
  split at h
  · simp at h
  · rename_i res hres
    obtain ⟨items', n⟩ := res
    injection h with h
    subst h
    intro v hv
    simp only [List.mem_map] at hv
    obtain ⟨v0, hv0, rfl⟩ := hv
    exact deliver_inv w.items items' op n v0 hres (hw v0 hv0)

theorem updateInPlace_inv (w : World) (ri val : Nat) (hw : w.Inv) : (w.updateInPlace ri val).Inv := by
  unfold World.updateInPlace
  split
  · rename_i old hold
    intro v hv
    have := hw v hv
    simp only [filterIdx] at this ⊢
    rw [this]
    exact (filterIdxFrom_congr_ty v.pred 0 _ _ (map_ty_set_val w.items ri old val hold)).symm
  · exact hw

theorem stepMicro_inv (w w' : World) (m : Micro) (hw : w.Inv) (h : w.stepMicro m = .ok w') : w'.Inv := by
  cases m with
  | raw op => exact stepRaw_inv w w' op hw h
  | setOrUpdate upd ri v =>
    simp only [World.stepMicro] at h
    split at h
    · simp at h
    · split at h
      · simp only [pure, Except.pure, Except.ok.injEq] at h
        subst h
        exact updateInPlace_inv w ri v.val hw
      · exact stepRaw_inv w w' _ hw h

theorem runMicros_inv (ms : List Micro) (w : World) (hw : w.Inv) : (w.runMicros ms).1.Inv := by
  induction ms generalizing w with
  | nil => exact hw
  | cons m ms ih =>
    simp only [World.runMicros]
    split
    · rename_i w' hw'
      exact ih w' (stepMicro_inv w w' m hw hw')
    · exact hw

theorem register_inv (w : World) (p : Nat → Bool) (u : UpdKind) (hw : w.Inv) : (w.register p u).Inv := by
  intro v hv
  simp only [World.register, List.mem_append, List.mem_singleton] at hv
  rcases hv with hv | hv
  · exact hw v hv
  · subst hv; rfl

/-- `views_inv`, one step: whichever view (or the raw wrapper) a call goes through, and whether it succeeds,
is refused, or even fails half-way, afterwards every registered view's `_raw_indexes` is again exactly the raw
list filtered by that view's type test. -/
theorem views_inv_step (w : World) (op : World.Op) (hw : w.Inv) : (w.step op).1.Inv := by
  cases op with
  | register p u => exact register_inv w p u hw
  | raw rop =>
    simp only [World.step]
    split
    · rename_i w' hw'
      exact stepRaw_inv w w' rop hw hw'
    · exact hw
  | view k vop =>
    simp only [World.step]
    split
    · exact hw
    · split
      · exact hw
      · exact runMicros_inv _ w hw

/-- `views_inv`: the invariant holds after every history of registrations and calls through the raw wrapper
and through any of the views, for every argument (indexes, slices, steps, keys; valid or refused). -/
theorem views_inv (ops : List World.Op) (w : World) (hw : w.Inv) : (w.run ops).Inv := by
  induction ops generalizing w with
  | nil => exact hw
  | cons op ops ih =>
    simp only [World.run, List.foldl_cons]
    exact ih _ (views_inv_step w op hw)

/-- A freshly parsed field (no view touched yet) satisfies the invariant, so `views_inv` applies to every
history from there. -/
theorem views_inv_from_start (items : List Item) (ops : List World.Op) :
    (World.run { items := items, views := [] } ops).Inv :=
  views_inv ops _ (by intro v hv; simp at hv)

/-! ## Reading a view; Python list semantics of the raw wrapper -/

/-- Reading a consistent view gives the raw list filtered by the view's type test (then converted):
iteration, `len`, `view[i]` for every integer (negative and out of range → `IndexError` exactly when the filtered
list raises) and `view[start:stop:step]` for every slice. -/
theorem view_eq_filter (v : View) (items : List Item) (h : v.rawIdx = filterIdx v.pred items)
    {β : Type} (conv : Item → β) :
    (v.iter items).map conv = (filterItems v.pred items).map conv
    ∧ v.len = (filterItems v.pred items).length
    ∧ (∀ i, (v.getInt items i).map conv = (PyList.getItem (filterItems v.pred items) i).map conv)
    ∧ (∀ a b c, (v.getSlice items a b c).map (List.map conv)
        = (PyList.getSlice (filterItems v.pred items) a b c).map (List.map conv)) := by
  refine ⟨?_, ?_, ?_, ?_⟩
  · unfold View.iter; rw [h, filterIdx_filterMap_get]
  · unfold View.len; rw [h, filterIdx_length]
  · intro i; rw [View.getInt_eq v items h]
  · intro a b c; rw [View.getSlice_eq v items h]

/-- Each raw-wrapper method changes the item list exactly as the same call changes a Python list — for every
int index (negative, out of range → `IndexError`), every slice `start:stop:step` with any mix of `None`, negative,
out-of-range or reversed bounds and any non-zero step (positive and negative extended slices, `ValueError` on a size
mismatch or step 0), `insert` clamping, `pop`, `append`, `extend`, `clear`.  Restriction (documented by the
library): `__setitem__(slice)` and `extend` first refuse values that are attached or repeated
(`rep_reuse_refused`). -/
theorem rep_py_list (items : List Item) (op : RawOp) (ref : Except String (List Item))
    (href : op.pyRef items = some ref) (hre : op.valsReusable items = true) :
    (Raw.apply items op).map (·.1) = ref := by
  cases op with
  | setInt i v =>
    simp only [RawOp.pyRef, Option.some.injEq] at href; subst href
    exact Raw.setInt_ref items i v
  | setSlice a b c vals =>
    simp only [RawOp.pyRef, Option.some.injEq] at href; subst href
    exact Raw.setSlice_ref items vals a b c hre
  | delInt i =>
    simp only [RawOp.pyRef, Option.some.injEq] at href; subst href
    exact Raw.delInt_ref items i
  | delSlice a b c =>
    simp only [RawOp.pyRef, Option.some.injEq] at href; subst href
    exact Raw.delSlice_ref items a b c
  | insert i v =>
    simp only [RawOp.pyRef, Option.some.injEq] at href; subst href
    simp [Raw.apply, pure, Except.pure, Except.map, Raw.insert_ref]
  | append v =>
    simp only [RawOp.pyRef, Option.some.injEq] at href; subst href
    simp [Raw.apply, Raw.append, pure, Except.pure, Except.map]
  | extend vals =>
    simp only [RawOp.pyRef, Option.some.injEq] at href; subst href
    simp only [RawOp.valsReusable] at hre
    simp [Raw.apply, Raw.extend, hre, pure, Except.pure, Except.map]
  | clear =>
    simp only [RawOp.pyRef, Option.some.injEq] at href; subst href
    simp [Raw.apply, Raw.clear, pure, Except.pure, Except.map]
  | pop i =>
    simp only [RawOp.pyRef, Option.some.injEq] at href; subst href
    exact Raw.pop_ref items i
  | dropMany idxs => simp [RawOp.pyRef] at href
  | reassign its => simp [RawOp.pyRef] at href

/-- Values that are attached or repeated are refused before anything is touched. -/
theorem rep_reuse_refused (items : List Item) (op : RawOp) (hre : op.valsReusable items = false) :
    Raw.apply items op = .error "ValueError:reuse" := by
  cases op <;> simp [RawOp.valsReusable] at hre
  · simp only [Raw.apply, Raw.setSlice, hre, throw, throwThe, MonadExceptOf.throw, bind, Except.bind,
      Bool.not_false, if_true]
  · simp only [Raw.apply, Raw.extend, hre, throw, throwThe, MonadExceptOf.throw, bind, Except.bind,
      Bool.not_false, if_true]

/-! ## Python list semantics of the views -/

/-- Every list method of a view (`RepeatedValueWrapper`: string views, filtered node views, mapping views used
as sequences) acts on the view's filtered — and converted — list exactly as the same call acts on a Python list:
`view[i] = x`, `view[a:b:c] = xs`, `del view[i]`, `del view[a:b:c]`, `insert`, `append`, `extend`, `clear`, `pop`,
`remove` (first match), `discard` (all matches), for every int index, every slice with `None`/negative/out-of-range/
reversed bounds and every non-zero step (positive and negative), raising exactly when the list raises
(`IndexError`, `ValueError` for step 0, for an extended slice of another size, for a value that is not there) —
and a call that raises changes nothing.  `conv` is any conversion that does not see whether `update_raw` changed
the old object in place or the object was replaced (`id` for views that never update in place; the value for
string views).
Hypotheses: the view is consistent (`views_inv`), the offered values have the view's element type.
Documented restrictions: `extend` refuses attached or repeated nodes (`hre`); assigning to a step-1 slice through a
view requires as many values as the slice selects (`hsz`; otherwise `view_setSlice_size_refused`). -/
theorem view_py_list {β : Type} (w : World) (k : Nat) (v : View) (op : ViewOp)
    (ref : Except String (List Item)) (conv : Item → β)
    (hk : w.views[k]? = some v) (hv : v.rawIdx = filterIdx v.pred w.items)
    (hconv : ∀ old new : Item, v.upd.applies old new = true → conv { old with val := new.val } = conv new)
    (hvals : ∀ x ∈ op.vals, v.pred x.ty = true)
    (hre : ∀ vals, op = .extend vals → Raw.reusable w.items vals = true)
    (hsz : ∀ a b c vals s e, op = .setSlice a b c vals →
      PyList.sliceIndices (filterItems v.pred w.items).length a b c = .ok (s, e, 1) →
      (PyList.rangeList s e 1).length = vals.length)
    (href : op.pyRef (filterItems v.pred w.items) = some ref) :
    ViewCallSpec w k v op ref conv := by
  cases op with
  | setInt i x =>
    simp only [ViewOp.pyRef, Option.some.injEq] at href; subst href
    exact spec_setInt w k v conv i x hk hv hconv (hvals x (by simp [ViewOp.vals]))
  | setSlice a b c vals =>
    simp only [ViewOp.pyRef, Option.some.injEq] at href; subst href
    exact spec_setSlice w k v conv a b c vals hk hv hconv (by simpa [ViewOp.vals] using hvals)
      (fun s e h => hsz a b c vals s e rfl h)
  | delInt i =>
    simp only [ViewOp.pyRef, Option.some.injEq] at href; subst href
    exact spec_delInt w k v conv i hk hv
  | delSlice a b c =>
    simp only [ViewOp.pyRef, Option.some.injEq] at href; subst href
    exact spec_delSlice w k v conv a b c hk hv
  | insert i x =>
    simp only [ViewOp.pyRef, Option.some.injEq] at href; subst href
    exact spec_insert w k v conv i x hk hv (hvals x (by simp [ViewOp.vals]))
  | append x =>
    simp only [ViewOp.pyRef, Option.some.injEq] at href; subst href
    exact spec_append w k v conv x hk (hvals x (by simp [ViewOp.vals]))
  | extend vals =>
    simp only [ViewOp.pyRef, Option.some.injEq] at href; subst href
    exact spec_extend w k v conv vals hk (by simpa [ViewOp.vals] using hvals) (hre vals rfl)
  | clear =>
    simp only [ViewOp.pyRef, Option.some.injEq] at href; subst href
    exact spec_clear w k v conv hk hv
  | pop i =>
    simp only [ViewOp.pyRef, Option.some.injEq] at href; subst href
    exact spec_pop w k v conv i hk hv
  | remove val =>
    simp only [ViewOp.pyRef, Option.some.injEq] at href; subst href
    exact spec_remove w k v conv val hk hv
  | discard val =>
    simp only [ViewOp.pyRef, Option.some.injEq] at href; subst href
    exact spec_discard w k v conv val hk hv
  | setKeyRaw key x => simp [ViewOp.pyRef] at href
  | setKeyVal key x => simp [ViewOp.pyRef] at href
  | delKey key => simp [ViewOp.pyRef] at href
  | popKey key d => simp [ViewOp.pyRef] at href

/-- The documented restriction of slice assignment through a view: when the number of values differs from the
number of selected elements the view raises `ValueError` (for step 1 too, where a list would resize) and nothing
changes. -/
theorem view_setSlice_size_refused (w : World) (k : Nat) (v : View) (a b c : Option Int) (vals : List Item)
    (s e st : Int) (hk : w.views[k]? = some v) (hv : v.rawIdx = filterIdx v.pred w.items)
    (hs : PyList.sliceIndices (filterItems v.pred w.items).length a b c = .ok (s, e, st))
    (hne : (PyList.rangeList s e st).length ≠ vals.length) :
    w.step (.view k (.setSlice a b c vals)) = (w, some "ValueError:size") :=
  setSlice_size_refused w k v a b c vals s e st hk hv hs hne

/-- Mapping views (`raw_meta`, `meta`): on a consistent view a key denotes the FIRST element in list order whose
key matches (`view[key]`, `key in view`), and every key operation is the positional operation at that position
(to which `view_py_list` applies) or, when no element matches, `KeyError` / an `append` / the default.
Partial: this reduces the key operations to the list operations; it is not stated against an independent
ordered-dictionary reference (the harness compares with ordered first-match pairs on the real objects). -/
theorem meta_py_dict_partial (v : View) (items : List Item) (hv : v.rawIdx = filterIdx v.pred items)
    (key : Nat) (x : Item) (d : Bool) :
    v.findKey items key = (filterItems v.pred items).findIdx? (fun y => y.val == key)
    ∧ v.getKey items key = (match (filterItems v.pred items).find? (fun y => y.val == key) with
        | some y => .ok y
        | none => .error "KeyError")
    ∧ v.containsKey items key = (filterItems v.pred items).any (fun y => y.val == key)
    ∧ v.apply items (.delKey key) = (match v.findKey items key with
        | some i => v.apply items (.delInt i)
        | none => .error "KeyError")
    ∧ v.apply items (.popKey key d) = (match v.findKey items key with
        | some i => v.apply items (.pop i)
        | none => if d then .ok [] else .error "KeyError")
    ∧ v.apply items (.setKeyRaw key x) = (match v.findKey items key with
        | some i => v.apply items (.setInt i x)
        | none => v.apply items (.append x))
    ∧ v.apply items (.setKeyVal key x) = (match v.findKey items key with
        | some _ => .ok []
        | none => v.apply items (.append x)) := by
  obtain ⟨h1, h2, h3⟩ := findKey_eq v items hv key
  refine ⟨h1, h2, h3, ?_, ?_, ?_, ?_⟩ <;> simp only [View.apply] <;> cases v.findKey items key <;> rfl

/-! ## Non-vacuity: the hypotheses are satisfiable by concrete, non-trivial states -/

/-- tags `#a ^b #c` plus a standalone comment; type tags 0 = Tag, 1 = Link, 2 = BlockComment -/
private def items0 : List Item := [⟨1, 0, 5⟩, ⟨2, 1, 6⟩, ⟨3, 0, 7⟩, ⟨4, 2, 0⟩]
private def isTag : Nat → Bool := fun t => t == 0
private def isLink : Nat → Bool := fun t => t == 1
private def world0 : World := (({ items := items0 } : World).register isTag .always).register isLink .never

example : world0.views.map (·.rawIdx) = [[0, 2], [1]] := by decide
example : world0.Inv := register_inv _ _ _ (register_inv _ _ _ (by intro v hv; simp at hv))

/-- `handleSplice_correct` on a concrete splice: `raw[1:3] = [Tag, Link]` moves the tag view from `[0, 2]` to `[0, 1]`. -/
example : handleSplice isTag [0, 2] 1 3 [⟨9, 0, 1⟩, ⟨10, 1, 2⟩] = [0, 1] := by
  have h := handleSplice_correct isTag items0 [⟨9, 0, 1⟩, ⟨10, 1, 2⟩] [0, 2] 1 3 (by decide) (by decide) (by decide)
  rw [h]; decide

/-- `callers_normalised` is not vacuous: a negative index and a reversed slice both notify normalised bounds. -/
example : Raw.apply items0 (.setInt (-1) ⟨9, 0, 1⟩)
    = .ok ([⟨1, 0, 5⟩, ⟨2, 1, 6⟩, ⟨3, 0, 7⟩, ⟨9, 0, 1⟩], .splice 3 4 [⟨9, 0, 1⟩]) := by rfl
example : Raw.apply items0 (.setSlice (some 3) (some 1) none [⟨9, 0, 1⟩])
    = .ok ([⟨1, 0, 5⟩, ⟨2, 1, 6⟩, ⟨3, 0, 7⟩, ⟨9, 0, 1⟩, ⟨4, 2, 0⟩], .splice 3 3 [⟨9, 0, 1⟩]) := by rfl
example : Raw.apply items0 (.insert (-1) ⟨9, 1, 1⟩)
    = .ok ([⟨1, 0, 5⟩, ⟨2, 1, 6⟩, ⟨3, 0, 7⟩, ⟨9, 1, 1⟩, ⟨4, 2, 0⟩], .splice 3 3 [⟨9, 1, 1⟩]) := by rfl

/-- `views_inv` after a mixed history through the raw wrapper and both views. -/
example : (world0.run [.raw (.setInt (-1) ⟨9, 0, 1⟩), .view 0 (.delSlice none none (some (-2))),
    .view 1 (.insert (-5) ⟨10, 1, 2⟩), .raw (.delSlice (some 3) (some 1) none), .view 0 (.setInt 0 ⟨11, 0, 8⟩)]).Inv :=
  views_inv _ _ (register_inv _ _ _ (register_inv _ _ _ (by intro v hv; simp at hv)))

/-- …and that history really changes the list (the items component does not depend on the views). -/
example : (world0.run [.view 1 (.insert (-5) ⟨10, 1, 2⟩), .raw (.setInt (-1) ⟨9, 0, 1⟩)]).items.map (·.id)
    = [10, 1, 2, 3, 9] := by decide

/-- `view_py_list` instantiated: `tags[::-1] = ['x', 'y']` on the tag view of `#a ^b #c` (in-place update). -/
example : ViewCallSpec world0 0 ⟨isTag, .always, [0, 2]⟩ (.setSlice none none (some (-1)) [⟨9, 0, 1⟩, ⟨10, 0, 2⟩])
    (.ok [⟨10, 0, 2⟩, ⟨9, 0, 1⟩]) (fun x => x.val) := by
  apply view_py_list world0 0 ⟨isTag, .always, [0, 2]⟩ _ _ (fun x => x.val) rfl (by decide)
  · intro old new _; rfl
  · decide
  · intro vals h; cases h
  · intro a b c vals s e h hs
    injection h with h1 h2 h3 h4
    subst h1 h2 h3 h4
    have := (PyList.sliceIndices_ok hs).2.1
    simp at this
  · rfl

/-- `rep_py_list` instantiated on an extended negative slice. -/
example : (Raw.apply items0 (.delSlice none none (some (-3)))).map (·.1) = .ok [⟨2, 1, 6⟩, ⟨3, 0, 7⟩] := by
  rw [rep_py_list items0 (.delSlice none none (some (-3))) _ rfl rfl]; rfl

end Autobean.C10
