import Autobean.Properties.C07
/-!
# C02 — changing one token changes only that token's characters

Model: `Store.updateText` (= `Token._update_raw_text` → `TokenStore.update` + the token's own fields) on the
blocked store, and every setter of a token class reduces to it (`value := v` ⇒ `text := format v`,
`raw_text := s` ⇒ `text := s`); the obligation `Obligations.Effects` checks on the extracted source that
`_raw_text` is written only by `Token.__init__` and `Token._update_raw_text`.
-/
namespace Autobean.C02

/-- Replace the text of entry `id` in an abstract `(id, text)` list. -/
def setText (id : Nat) (txt : List Char) (l : List (Nat × List Char)) : List (Nat × List Char) :=
  l.map fun p => if p.1 = id then (id, txt) else p

/-- The concatenated text of an abstract list. -/
def textOf (l : List (Nat × List Char)) : List Char := (l.map (·.2)).flatten

/-- `setText` changes no identity and no order. -/
theorem setText_ids (id : Nat) (txt : List Char) (l : List (Nat × List Char)) :
    (setText id txt l).map (·.1) = l.map (·.1) := by
  induction l with
  | nil => rfl
  | cons p l ih =>
    simp only [setText, List.map_cons] at ih ⊢
    by_cases h : p.1 = id <;> simp [h, ih]

/-- Every other token keeps its text. -/
theorem setText_others (id : Nat) (txt : List Char) (l : List (Nat × List Char)) (p : Nat × List Char)
    (hp : p ∈ l) (hne : p.1 ≠ id) : p ∈ setText id txt l := by
  simp only [setText, List.mem_map]
  exact ⟨p, hp, by simp [hne]⟩

/-- With distinct ids, the printed text is the old text with exactly the span of token `id` replaced:
if the list is `pre ++ [(id, old)] ++ post` then the new text is `text pre ++ txt ++ text post`. -/
theorem setText_text (id : Nat) (txt old : List Char) (pre post : List (Nat × List Char))
    (hpre : ∀ p ∈ pre, p.1 ≠ id) (hpost : ∀ p ∈ post, p.1 ≠ id) :
    textOf (setText id txt (pre ++ [(id, old)] ++ post)) = textOf pre ++ txt ++ textOf post := by
  have hfix : ∀ l : List (Nat × List Char), (∀ p ∈ l, p.1 ≠ id) → setText id txt l = l := by
    intro l hl
    induction l with
    | nil => rfl
    | cons q l ih =>
      have hq : q.1 ≠ id := hl q (by simp)
      have := ih (fun p hp => hl p (by simp [hp]))
      simp only [setText, List.map_cons] at this ⊢
      simp [hq, this]
  have h1 : setText id txt (pre ++ [(id, old)] ++ post)
      = setText id txt pre ++ [(id, txt)] ++ setText id txt post := by
    simp [setText]
  rw [h1, hfix pre hpre, hfix post hpost]
  simp [textOf]

/-- **C02 on the real (blocked) store model.** Assigning a new text to one token of a store that satisfies
the invariants succeeds, keeps every identity and the order, keeps both invariants (so positions stay right,
C08), and the abstract `(id, text)` list is the old one with exactly that entry replaced. -/
theorem update_one_token {s : Store} (hS : SInv s) (hC : CInv s) {id : Nat} (h : id ∈ s.ids)
    (txt : List Char) :
    ∃ s', Store.updateText s id txt = .ok s' ∧ SInv s' ∧ CInv s' ∧ s'.ids = s.ids ∧
      s'.cores = setText id txt s.cores := by
  obtain ⟨s', h1, h2, h3, h4, _, h6⟩ := Autobean.C07.updateText_refines hS hC h txt
  exact ⟨s', h1, h2, h3, h4, h6⟩

/-- Any sequence of single-token assignments: identities and order never change, the invariants hold
after every step, and the final abstract list is the fold of `setText` (induction over the sequence). -/
theorem updates_fold {s : Store} (hS : SInv s) (hC : CInv s) (as : List (Nat × List Char))
    (hmem : ∀ a ∈ as, a.1 ∈ s.ids) :
    ∃ s', (as.foldlM (fun st a => Store.updateText st a.1 a.2) s) = .ok s' ∧ SInv s' ∧ CInv s' ∧
      s'.ids = s.ids ∧ s'.cores = as.foldl (fun l a => setText a.1 a.2 l) s.cores := by
  induction as generalizing s with
  | nil => exact ⟨s, rfl, hS, hC, rfl, rfl⟩
  | cons a as ih =>
    obtain ⟨s1, h1, hS1, hC1, hid1, hc1⟩ := update_one_token hS hC (hmem a (by simp)) a.2
    obtain ⟨s2, g1, gS, gC, gid, gc⟩ := ih hS1 hC1 (fun b hb => by rw [hid1]; exact hmem b (by simp [hb]))
    refine ⟨s2, ?_, gS, gC, by rw [gid, hid1], ?_⟩
    · simp only [List.foldlM_cons, h1]
      exact g1
    · simp only [List.foldl_cons]
      rw [gc, hc1]

/-- The hypotheses are satisfiable: the four-block demo store, token 3. -/
example : ∃ s', Store.updateText Demo.demoStore 3 ['x', '\n', 'y'] = .ok s' ∧ s'.ids = Demo.demoStore.ids :=
  have hm : 3 ∈ Demo.demoStore.ids := by decide
  let ⟨s', h1, _, _, h4, _⟩ := update_one_token Demo.demo_inv.sinv Demo.demo_inv.cinv hm ['x', '\n', 'y']
  ⟨s', h1, h4⟩

end Autobean.C02
