/-
C20 — equality means same type, same text and same structure.

Model: `Autobean.treeEq` (`Model/Tree.lean`), the transcription of `RawTreeModel.__eq__`
(`self.tokens == other.tokens and self._eq(other)`), of the generated `_eq` (same class, every field
pairwise, `indent_by`), of `Repeated._eq` (items pairwise, not the placeholder), of
`NumberAddExpr._eq`/`NumberMulExpr._eq`, and of `RawTokenModel.__eq__`/`__hash__` over `(RULE, raw_text)`.

What the theorems say about "exactly when".  `treeEq` compares the token lists of *every* pair of
corresponding inner nodes, so it sits between two readings of "same tree structure":

  same class ∧ same token list ∧ same shape ∧ leaves at the same positions   ⇒   `treeEq`     (`treeEq_of_char`)
  `treeEq`   ⇒   same class ∧ same token list ∧ same shape                                     (`treeEq_imp`)

and it is *equivalent* to the three-part characterisation for position-aligned pairs
(`treeEq_iff_partial`; every pair the property names — parsed twice, copy/original, one token text
changed — is aligned).  Without alignment neither implication reverses; both counterexamples are at the
end of the file (two identical block comments next to each other, a different one owned on each side).

What is modelled rather than proved: that the generated `_eq` of every class names every field and
`indent_by` (`ClassSchema.eqComplete`, `Model/SchemaWF.lean`, discharged over the extracted table).
-/
import Autobean.Properties.C11

namespace Autobean.C20
open Autobean List

/-! ### Equivalence relation -/

/-- Equality is reflexive (no hypothesis needed; in particular under `TInv`). -/
theorem treeEq_refl (s : List TTk) (t : Tree) : treeEq s s t t = true := Autobean.treeEq_refl s t

/-- Equality is symmetric: `a == b` and `b == a` are the same Boolean. -/
theorem treeEq_symm (sa sb : List TTk) (a b : Tree) : treeEq sa sb a b = treeEq sb sa b a :=
  Autobean.treeEq_comm sa sb a b

/-- Equality is transitive. -/
theorem treeEq_trans {sa sb sc : List TTk} {a b c : Tree}
    (h1 : treeEq sa sb a b = true) (h2 : treeEq sb sc b c = true) : treeEq sa sc a c = true :=
  Autobean.treeEq_trans' sa sb sc a b c h1 h2

/-! ### The characterisation -/

/-- **Equal ⇒ same type, same text, same structure.**  Equal models have the same class, token lists that
agree on `(RULE, text)` (hence print the same text) and the same shape (classes, fields, `indent_by`,
leaf tokens on `(RULE, text)`). -/
theorem treeEq_imp {sa sb : List TTk} {a b : Tree} (h : treeEq sa sb a b = true) :
    a.cls = b.cls ∧ segKT sa a = segKT sb b ∧ shapeEq sa sb a b = true :=
  ⟨treeEq_cls h, treeEq_segKT h, treeEq_shapeEq sa sb a b h⟩

/-- Equal models print the same text. -/
theorem treeEq_text {sa sb : List TTk} {a b : Tree} (h : treeEq sa sb a b = true) :
    textOf (tokensOf sa a) = textOf (tokensOf sb b) := by
  have := congrArg (fun l => (l.map Prod.snd).flatten) (treeEq_segKT h)
  simpa [segKT, textOf, TTk.kt, List.map_map, Function.comp_def] using this

/-- Two models are *position-aligned* when one renaming of token identities carries the leaves of `a` to
the leaves of `b` and the token sequence of `a` to the token sequence of `b`, position by position: the
leaves sit at the same places of the two token sequences ("the same tokens are owned"). -/
def Aligned (sa : List TTk) (a : Tree) (sb : List TTk) (b : Tree) : Prop :=
  ∃ ρ : Nat → Nat, b.leaves = a.leaves.map ρ ∧ ids (tokensOf sb b) = (ids (tokensOf sa a)).map ρ

/-- **Same type, same text, same structure (leaves at the same positions) ⇒ equal.** -/
theorem treeEq_of_char {σa σb : Nat} {sa sb : List TTk} {a b : Tree}
    (ha : TInv σa sa a) (hb : TInv σb sb b) (hal : Aligned sa a sb b)
    (hkt : segKT sa a = segKT sb b) (hsh : shapeEq sa sb a b = true) :
    treeEq sa sb a b = true := by
  obtain ⟨ρ, hl, hids⟩ := hal
  exact treeEq_of_aligned_doc (ρ := ρ) ha.storeNodup hb.storeNodup ha.leavesSub hb.leavesSub ha.nonempty
    ha.fileRoot (shapeEq_shape sa sb a b hsh) hl hids (by unfold segKT at hkt; exact hkt.symm)

/-- **The three-part characterisation**, for position-aligned pairs: two models compare equal exactly when
they have the same class, token lists equal on `(RULE, text)`, and the same shape.

Partial: the hypothesis `Aligned` is needed for "⇐" only (`treeEq_imp` is "⇒" without it); for pairs that are
not aligned `treeEq` is strictly between the two readings of "same structure" — see
`unaligned_same_char_not_equal` and `unaligned_equal` below. -/
theorem treeEq_iff_partial {σa σb : Nat} {sa sb : List TTk} {a b : Tree}
    (ha : TInv σa sa a) (hb : TInv σb sb b) (hal : Aligned sa a sb b) :
    treeEq sa sb a b = true ↔ a.cls = b.cls ∧ segKT sa a = segKT sb b ∧ shapeEq sa sb a b = true :=
  ⟨treeEq_imp, fun h => treeEq_of_char ha hb hal h.2.1 h.2.2⟩

/-! ### The pairs the property names -/

/-- A token of the second parse: same kind, text and flag, another identity. -/
def renTk (ρ : Nat → Nat) (t : TTk) : TTk := { t with id := ρ t.id }

/-- **Parsing the same text twice gives equal models.**  The parser is deterministic, so two parses of one
text differ in object identities only: the second document is the first with identities renamed (`ρ`,
distinct on the store) and its own store tag.  Such documents compare equal — at the root and at every
sub-model (`t` is any tree over `s`). -/
theorem eq_parse_twice {σ : Nat} {s : List TTk} {t : Tree} (ρ : Nat → Nat) (σ' : Nat)
    (h : TInv σ s t) (hρ : ((ids s).map ρ).Nodup) :
    treeEq s (s.map (renTk ρ)) t (t.mapIds ρ σ') = true := by
  have hids : ids (s.map (renTk ρ)) = (ids s).map ρ := by simp [ids, renTk, List.map_map, Function.comp_def]
  have hkt : (s.map (renTk ρ)).map TTk.kt = s.map TTk.kt := by
    simp [renTk, TTk.kt, List.map_map, Function.comp_def]
  exact treeEq_of_aligned_stores (ρ := ρ) h.storeNodup (by rw [hids]; exact hρ) h.leavesSub h.fileRoot
    (Tree.shape_mapIds ρ σ' t).symm (Tree.leaves_mapIds ρ σ' t) hids hkt

/-- **A deep copy equals its original** (C11's `deepcopy_eq`, both directions). -/
theorem copy_eq {σ : Nat} {s : List TTk} {t : Tree} {base σ' : Nat} {s' : List TTk} {t' : Tree}
    (h : TInv σ s t) (hc : deepcopy base σ' s t = .ok (s', t')) :
    treeEq s s' t t' = true ∧ treeEq s' s t' t = true :=
  ⟨C11.deepcopy_eq h hc, C11.deepcopy_eq_symm h hc⟩

/-- Copy and original are position-aligned, so the three-part characterisation is exact for them. -/
theorem copy_aligned {σ : Nat} {s : List TTk} {t : Tree} {base σ' : Nat} {s' : List TTk} {t' : Tree}
    (h : TInv σ s t) (hc : deepcopy base σ' s t = .ok (s', t')) : Aligned s t s' t' := by
  refine ⟨C11.rename base s t, (C11.deepcopy_shape h hc).2, ?_⟩
  have hspan : tokensOf s' t' = s' := (C11.deepcopy_inv h hc).2
  rw [hspan, C11.deepcopy_store h hc]
  simp [ids, C11.renameTk, List.map_map, Function.comp_def]

/-- A model is aligned with itself, and with itself after token texts changed (identities stay). -/
theorem aligned_of_same_ids {s : List TTk} {t : Tree} (g : TTk → TTk) (hg : ∀ x, (g x).id = x.id) :
    Aligned s t (s.map g) t := by
  refine ⟨id, by simp, ?_⟩
  rw [tokensOf_map g hg]
  simp [ids, List.map_map, Function.comp_def, hg]

/-! ### Single edits make the result unequal -/

/-- `token.raw_text = txt` for the token with identity `i`. -/
def setText (i : Nat) (txt : List Char) (t : TTk) : TTk := if t.id = i then { t with text := txt } else t

theorem setText_id (i : Nat) (txt : List Char) (t : TTk) : (setText i txt t).id = t.id := by
  unfold setText; split <;> rfl

/-- **Changing the text of one token** anywhere in a model's span (a leaf at any depth, or a separator or
unclaimed comment between leaves) makes the model unequal to the original, in both directions. -/
theorem neq_token_text {s : List TTk} {t : Tree} {x : TTk} {txt : List Char}
    (hx : x ∈ tokensOf s t) (hne : x.text ≠ txt) :
    treeEq s (s.map (setText x.id txt)) t t = false ∧ treeEq (s.map (setText x.id txt)) s t t = false := by
  have hmain : treeEq s (s.map (setText x.id txt)) t t = false := by
    cases hT : treeEq s (s.map (setText x.id txt)) t t with
    | false => rfl
    | true =>
      exfalso
      have h := treeEq_segKT hT
      unfold segKT at h
      rw [tokensOf_map _ (setText_id x.id txt)] at h
      refine map_kt_ne (g := setText x.id txt) hx ?_ h.symm
      simp only [setText, if_true, TTk.kt]
      intro h'
      injection h' with _ h2
      exact hne h2.symm
  exact ⟨hmain, by rw [Autobean.treeEq_comm]; exact hmain⟩

/-- The same for a leaf of the tree, under the invariant: every leaf lies in the model's span. -/
theorem neq_leaf_text {σ : Nat} {s : List TTk} {t : Tree} {i : Nat} {txt : List Char}
    (h : TInv σ s t) (hi : i ∈ t.leaves) (hne : ∀ x ∈ s, x.id = i → x.text ≠ txt) :
    treeEq s (s.map (setText i txt)) t t = false := by
  have hmem := C11.leaves_in_span h i hi
  obtain ⟨x, hx, hxi⟩ := mem_ids.mp hmem
  obtain ⟨A, C, hS, _⟩ := tokensOf_decomp h.storeNodup h.leavesSub h.nonempty
  have hxs : x ∈ s := by rw [hS]; simp [hx]
  subst hxi
  exact (neq_token_text hx (hne x hxs rfl)).1

/-- An absent child never equals a present one (`None == model` is `False`). -/
theorem absent_ne {sa sb : List TTk} {x : Tree} (hx : x ≠ .absent) :
    treeEq sa sb .absent x = false ∧ treeEq sa sb x .absent = false := by
  cases x <;> simp_all [treeEq]

/-- **Adding or removing an optional child**: two nodes that differ in the presence of the child in one field
slot are unequal — whatever the stores, the classes and the other fields. -/
theorem neq_add_remove_child {sa sb : List TTk} {c g c' g' : Nat} {ind ind' : Option (List Char)}
    {pre post pre' post' : List Tree} {x : Tree} (hlen : pre.length = pre'.length) (hx : x ≠ .absent) :
    treeEq sa sb (.node c g ind (pre ++ .absent :: post)) (.node c' g' ind' (pre' ++ x :: post')) = false ∧
    treeEq sa sb (.node c g ind (pre ++ x :: post)) (.node c' g' ind' (pre' ++ .absent :: post')) = false := by
  constructor
  · cases hT : treeEq sa sb (.node c g ind (pre ++ .absent :: post)) (.node c' g' ind' (pre' ++ x :: post')) with
    | false => rfl
    | true =>
      simp only [treeEq, Bool.and_eq_true] at hT
      have := treeEqL_split hlen hT.1.2
      rw [(absent_ne hx).1] at this
      cases this
  · cases hT : treeEq sa sb (.node c g ind (pre ++ x :: post)) (.node c' g' ind' (pre' ++ .absent :: post')) with
    | false => rfl
    | true =>
      simp only [treeEq, Bool.and_eq_true] at hT
      have := treeEqL_split hlen hT.1.2
      rw [(absent_ne hx).2] at this
      cases this

/-- **Appending or popping an item**: repeated fields with different numbers of items are unequal. -/
theorem neq_item_count {sa sb : List TTk} {g ph g' ph' : Nat} {is is' : List Tree}
    (hlen : is.length ≠ is'.length) : treeEq sa sb (.rep g ph is) (.rep g' ph' is') = false := by
  cases hT : treeEq sa sb (.rep g ph is) (.rep g' ph' is') with
  | false => rfl
  | true =>
    simp only [treeEq, Bool.and_eq_true] at hT
    exact absurd (treeEqL_length hT.2) hlen

/-- A changed `indent_by` makes a node unequal (the generated `_eq` ends with `indent_by ==`). -/
theorem neq_indent_by {sa sb : List TTk} {c g c' g' : Nat} {ind ind' : Option (List Char)} {fs fs' : List Tree}
    (h : ind ≠ ind') : treeEq sa sb (.node c g ind fs) (.node c' g' ind' fs') = false := by
  cases hT : treeEq sa sb (.node c g ind fs) (.node c' g' ind' fs') with
  | false => rfl
  | true =>
    simp only [treeEq, Bool.and_eq_true, beq_iff_eq] at hT
    exact absurd hT.2 h

/-- Different classes are unequal (`isinstance(other, C)`). -/
theorem neq_class {sa sb : List TTk} {c g c' g' : Nat} {ind ind' : Option (List Char)} {fs fs' : List Tree}
    (h : c ≠ c') : treeEq sa sb (.node c g ind fs) (.node c' g' ind' fs') = false := by
  cases hT : treeEq sa sb (.node c g ind fs) (.node c' g' ind' fs') with
  | false => rfl
  | true =>
    simp only [treeEq, Bool.and_eq_true, beq_iff_eq] at hT
    exact absurd hT.1.1.2 h

/-- **Unequal somewhere ⇒ unequal at the root.**  If the sub-models at one path of two models are unequal, the
models are unequal (so every single edit above shows at every enclosing model up to the `File`). -/
theorem neq_lift {sa sb : List TTk} {a b x y : Tree} {p : List Nat}
    (hx : a.subAt p = some x) (hy : b.subAt p = some y) (hne : treeEq sa sb x y = false) :
    treeEq sa sb a b = false := by
  cases hT : treeEq sa sb a b with
  | false => rfl
  | true =>
    obtain ⟨y', hy', he⟩ := treeEq_subAt sa sb a b p x hT hx
    rw [hy] at hy'
    injection hy' with hy'
    subst hy'
    rw [he] at hne
    cases hne

/-- **Changing which model owns a comment.**  A comment `cm` that is the leading comment (first field) of
the item `node c g ind (tok cm :: fs)` of a repeated field, versus the same comment owned by the repeated
field itself as a stand-alone item in front of that node, versus owned by nobody: the three repeated fields
are pairwise unequal (and so are the shapes), whatever the stores. -/
theorem neq_owner_change {sa sb : List TTk} {g ph g' ph' c gn gn' cm cm' : Nat} {ind : Option (List Char)}
    {pre post pre' post' fs fs' : List Tree} (hlen : pre.length = pre'.length) :
    -- leading comment of the item  vs  stand-alone item of the enclosing field
    treeEq sa sb (.rep g ph (pre ++ .node c gn ind (.tok cm :: fs) :: post))
        (.rep g' ph' (pre' ++ .tok cm' :: .node c gn' ind (.absent :: fs') :: post')) = false ∧
    shapeEq sa sb (.rep g ph (pre ++ .node c gn ind (.tok cm :: fs) :: post))
        (.rep g' ph' (pre' ++ .tok cm' :: .node c gn' ind (.absent :: fs') :: post')) = false ∧
    -- leading comment of the item  vs  owned by nobody
    treeEq sa sb (.rep g ph (pre ++ .node c gn ind (.tok cm :: fs) :: post))
        (.rep g' ph' (pre' ++ .node c gn' ind (.absent :: fs') :: post')) = false ∧
    -- stand-alone item of the enclosing field  vs  owned by nobody (when the rest has the same length)
    (post.length = post'.length →
      treeEq sa sb (.rep g ph (pre ++ .tok cm :: .node c gn ind (.absent :: fs) :: post))
        (.rep g' ph' (pre' ++ .node c gn' ind (.absent :: fs') :: post')) = false) := by
  refine ⟨?_, ?_, ?_, ?_⟩
  · cases hT : treeEq sa sb (.rep g ph (pre ++ .node c gn ind (.tok cm :: fs) :: post))
        (.rep g' ph' (pre' ++ .tok cm' :: .node c gn' ind (.absent :: fs') :: post')) with
    | false => rfl
    | true =>
      simp only [treeEq, Bool.and_eq_true] at hT
      have := treeEqL_split hlen hT.2
      simp [treeEq] at this
  · cases hT : shapeEq sa sb (.rep g ph (pre ++ .node c gn ind (.tok cm :: fs) :: post))
        (.rep g' ph' (pre' ++ .tok cm' :: .node c gn' ind (.absent :: fs') :: post')) with
    | false => rfl
    | true =>
      exfalso
      simp only [shapeEq] at hT
      have hsplit : ∀ (p p' : List Tree) (x y : Tree) (q q' : List Tree), p.length = p'.length →
          shapeEqL sa sb (p ++ x :: q) (p' ++ y :: q') = true → shapeEq sa sb x y = true := by
        intro p
        induction p with
        | nil =>
          intro p' x y q q' hl h
          cases p' with
          | nil => simp only [List.nil_append, shapeEqL, Bool.and_eq_true] at h; exact h.1
          | cons _ _ => simp at hl
        | cons a p ih =>
          intro p' x y q q' hl h
          cases p' with
          | nil => simp at hl
          | cons a' p' =>
            simp only [List.cons_append, shapeEqL, Bool.and_eq_true] at h
            exact ih p' x y q q' (by simpa using hl) h.2
      have := hsplit _ _ _ _ _ _ hlen hT
      simp [shapeEq] at this
  · cases hT : treeEq sa sb (.rep g ph (pre ++ .node c gn ind (.tok cm :: fs) :: post))
        (.rep g' ph' (pre' ++ .node c gn' ind (.absent :: fs') :: post')) with
    | false => rfl
    | true =>
      simp only [treeEq, Bool.and_eq_true] at hT
      have := treeEqL_split hlen hT.2
      simp [treeEq, treeEqL] at this
  · intro hpost
    apply neq_item_count
    simp only [List.length_append, List.length_cons]
    omega

/-! ### Tokens: equality and hash -/

/-- For tokens, equality is consistent with hash: equal tokens (same `RULE`, same text) have equal hashes. -/
theorem tok_eq_hash {a b : TTk} (h : tokEq a b = true) : a.hash = b.hash := by
  unfold tokEq at h
  have := beq_iff_eq.mp h
  simp [TTk.hash, this]

/-- **Owner swap.**  Two repeated fields that own the same NUMBER of entries but a different entry at one position
(document A gave up comment `i` of a field and kept comment `j`, document B the other way round - all tokens of both
documents being the same) are unequal as soon as the two entries at that position are: equality of a repeated field
walks its entries, it is not a count.  With `neq_lift` the inequality reaches every enclosing model. -/
theorem neq_owner_swap {sa sb : List TTk} {g ph g' ph' : Nat} {pre post pre' post' : List Tree} {x y : Tree}
    (hlen : pre.length = pre'.length) (hxy : treeEq sa sb x y = false) :
    treeEq sa sb (.rep g ph (pre ++ x :: post)) (.rep g' ph' (pre' ++ y :: post')) = false := by
  cases hT : treeEq sa sb (.rep g ph (pre ++ x :: post)) (.rep g' ph' (pre' ++ y :: post')) with
  | false => rfl
  | true =>
    simp only [treeEq, Bool.and_eq_true] at hT
    have := treeEqL_split hlen hT.2
    rw [hxy] at this
    cases this

/-- Token equality ignores identity and the `claimed` flag, and nothing else. -/
theorem tokEq_iff (a b : TTk) : tokEq a b = true ↔ a.kind = b.kind ∧ a.text = b.text := by
  simp [tokEq, TTk.kt]

/-! ### Non-vacuity and the limits of the characterisation (`Proofs/TreeExample.lean`) -/

section Examples
open Autobean.Example

/-- Reflexive / parse-twice on the concrete document; the renamed second parse is equal too. -/
example : treeEq exStore exStore exFile exFile = true ∧
    treeEq exStore (exStore.map (renTk (· + 50))) exFile (exFile.mapIds (· + 50) 8) = true :=
  ⟨by decide, eq_parse_twice (σ := 7) (· + 50) 8 (by decide) (by decide)⟩

/-- Changing the text of the currency token makes the `File` and the `Open` unequal to the original. -/
example : treeEq exStore (exStore.map (setText 10 ['E', 'U', 'R'])) exFile exFile = false ∧
    treeEq exStore (exStore.map (setText 10 ['E', 'U', 'R'])) exOpen exOpen = false :=
  ⟨neq_leaf_text (σ := 7) (by decide) (by decide) (by decide),
   neq_leaf_text (σ := 7) (by decide) (by decide) (by decide)⟩

/-- Un-claiming the leading comment, or moving it to the `File`'s directive list, makes the result unequal
(at the directive and at the `File`). -/
example : treeEq exStore exStore exOpen exOpenUnclaimed = false ∧
    treeEq exStore exStore exFile (.node 1 7 none [.rep 7 0 [exOpenUnclaimed]]) = false ∧
    treeEq exStore exStore exFile exFileCommentItem = false := by decide

/-- The hypotheses of `treeEq_iff_partial` are satisfiable with both sides of the equivalence true (copy)… -/
example : ∃ s' t', deepcopy 100 9 exStore exOpen = .ok (s', t') ∧ Aligned exStore exOpen s' t' ∧
    (exOpen.cls = t'.cls ∧ segKT exStore exOpen = segKT s' t' ∧ shapeEq exStore s' exOpen t' = true) := by
  have hinv : TInv 7 exStore exOpen := by decide
  obtain ⟨s', t', hc⟩ := C11.deepcopy_total 100 9 hinv
  exact ⟨s', t', hc, copy_aligned hinv hc, treeEq_imp (copy_eq hinv hc).1⟩

/-- … and with both sides false (one token text changed: aligned, same shape, different token list). -/
example : Aligned exStore exFile (exStore.map (setText 10 ['E'])) exFile ∧
    treeEq exStore (exStore.map (setText 10 ['E'])) exFile exFile = false ∧
    segKT exStore exFile ≠ segKT (exStore.map (setText 10 ['E'])) exFile :=
  ⟨aligned_of_same_ids _ (setText_id 10 ['E']), by decide, by decide⟩

/-- **Limit 1** (why `Aligned` is needed for "⇐").  Store `P ; x ⏎ ; x ⏎ d` with two identical comments; `a` owns
the first as the only item of a repeated field, `b` owns the second.  Same class, same token list, same shape,
both satisfy the invariant — but the repeated fields span different token lists, so `a == b` is `False`. -/
theorem unaligned_same_char_not_equal :
    let a := Tree.node 9 7 none [.rep 7 0 [.tok 1], .tok 5]
    let b := Tree.node 9 7 none [.rep 7 0 [.tok 3], .tok 5]
    TInv 7 twinStore a ∧ TInv 7 twinStore b ∧ a.cls = b.cls ∧ segKT twinStore a = segKT twinStore b ∧
      shapeEq twinStore twinStore a b = true ∧ treeEq twinStore twinStore a b = false := by decide

/-- **Limit 2** (why "⇒ leaves at the same positions" fails).  Same store; the repeated field owns the first
comment and `d` in `a`, the second comment and `d` in `b`.  Every compared token list agrees, so `a == b` is
`True` although different comment tokens are owned (the pair is not aligned).  Reproduced on the real code:
`File` of `'; x\n\n; x\n2000-01-01 open Assets:A\n'`, `claim_interleaving_comments([first])` vs `([second])`. -/
theorem unaligned_equal :
    let a := Tree.rep 7 0 [.tok 1, .tok 5]
    let b := Tree.rep 7 0 [.tok 3, .tok 5]
    TInv 7 twinStore a ∧ TInv 7 twinStore b ∧ treeEq twinStore twinStore a b = true ∧ a.leaves ≠ b.leaves ∧
      ¬ Aligned twinStore a twinStore b := by
  refine ⟨by decide, by decide, by decide, by decide, ?_⟩
  rintro ⟨ρ, h1, h2⟩
  have e1 : tokensOf twinStore (Tree.rep 7 0 [.tok 1, .tok 5]) = twinStore := by decide
  have e2 : tokensOf twinStore (Tree.rep 7 0 [.tok 3, .tok 5]) = twinStore := by decide
  rw [e1, e2] at h2
  simp [twinStore, ids] at h1 h2
  omega

end Examples

end Autobean.C20
