import Autobean.Proofs.Comments
/-
C04 — operations that are not edits never change the document.

In the model, reads are pure functions (they have no state to change); the content of the property is that the
calls which DO touch the token store although they are not edits — claiming / unclaiming comments and automatic
attribution — leave every token with visible text where it was.  Stores are `List Tk`; `visible t` = non-empty
text; `Tk.key` = (identity, text); `Tk.core` = (identity, kind, text) (everything but the `claimed` flag).

Hypothesis `PhEmpty s`: placeholders have empty text (`Placeholder('')`; evaluated on every real dump by the
harness).  All theorems are unbounded (any store, any ids, any call sequence).
-/
namespace Autobean.C04
open Autobean.Comments

/-- `_claim_comment` (leading: `backwards = true`, trailing: `false`; with or without `ignore_if_already_claimed`):
the visible tokens after the call are the visible tokens before it — same identities, same order, same texts. -/
theorem claim_visible {bw ig : Bool} {start : Nat} {s s' : Store} {r : Option Nat}
    (hs : PhEmpty s) (h : claimComment bw ig start s = .ok (s', r)) :
    (s'.filter visible).map Tk.key = (s.filter visible).map Tk.key :=
  (claimComment_moved h).visible hs

/-- `_claim_comment`: the new store is a permutation of the old one (nothing created, nothing dropped; identity,
kind and text of every token kept) and the tokens that are not placeholders keep their relative order: only
PLACEHOLDER tokens moved. -/
theorem claim_perm {bw ig : Bool} {start : Nat} {s s' : Store} {r : Option Nat}
    (h : claimComment bw ig start s = .ok (s', r)) :
    (s'.map Tk.core).Perm (s.map Tk.core) ∧
    (s'.filter (fun t => !isPh t)).map Tk.core = (s.filter (fun t => !isPh t)).map Tk.core :=
  ⟨(claimComment_moved h).perm, (claimComment_moved h).nonPh⟩

/-- `_claim_comment`: the printed text (concatenation of all token texts) is unchanged. -/
theorem claim_text {bw ig : Bool} {start : Nat} {s s' : Store} {r : Option Nat}
    (hs : PhEmpty s) (h : claimComment bw ig start s = .ok (s', r)) : textOf s' = textOf s :=
  (claimComment_moved h).text hs

/-- `_shift_ignored` (both directions): visible tokens unchanged. -/
theorem shift_visible {first last : Nat} {bw : Bool} {s s' : Store}
    (hs : PhEmpty s) (h : shiftIgnored first last bw s = .ok s') :
    (s'.filter visible).map Tk.key = (s.filter visible).map Tk.key :=
  (shiftIgnored_moved h).visible hs

/-- `_shift_ignored`: a permutation of the very same tokens (flags included) that moves only placeholders. -/
theorem shift_perm {first last : Nat} {bw : Bool} {s s' : Store} (h : shiftIgnored first last bw s = .ok s') :
    s'.Perm s ∧ (s'.filter (fun t => !isPh t)).map Tk.core = (s.filter (fun t => !isPh t)).map Tk.core :=
  ⟨shiftIgnored_perm h, (shiftIgnored_moved h).nonPh⟩

/-- `_shift_ignored`: printed text unchanged. -/
theorem shift_text {first last : Nat} {bw : Bool} {s s' : Store}
    (hs : PhEmpty s) (h : shiftIgnored first last bw s = .ok s') : textOf s' = textOf s :=
  (shiftIgnored_moved h).text hs

/-- `_CommentClaimer.claim` (`claim_interleaving_comments`, any comment set): visible tokens unchanged. -/
theorem inter_visible {ph : Nat} {items : List Item} {mf ml : Nat} {set : Option (List Nat)} {s : Store} {o : InterOut}
    (hs : PhEmpty s) (h : claimInterleaving ph items mf ml set s = .ok o) :
    (o.store.filter visible).map Tk.key = (s.filter visible).map Tk.key :=
  (claimInterleaving_moved h).visible hs

/-- `_CommentClaimer.claim`: a permutation that moves only placeholders. -/
theorem inter_perm {ph : Nat} {items : List Item} {mf ml : Nat} {set : Option (List Nat)} {s : Store} {o : InterOut}
    (h : claimInterleaving ph items mf ml set s = .ok o) :
    (o.store.map Tk.core).Perm (s.map Tk.core) ∧
    (o.store.filter (fun t => !isPh t)).map Tk.core = (s.filter (fun t => !isPh t)).map Tk.core :=
  ⟨(claimInterleaving_moved h).perm, (claimInterleaving_moved h).nonPh⟩

/-- `_CommentClaimer.claim`: printed text unchanged. -/
theorem inter_text {ph : Nat} {items : List Item} {mf ml : Nat} {set : Option (List Nat)} {s : Store} {o : InterOut}
    (hs : PhEmpty s) (h : claimInterleaving ph items mf ml set s = .ok o) : textOf o.store = textOf s :=
  (claimInterleaving_moved h).text hs

/-- `unclaim_leading_comment` / `unclaim_trailing_comment` do not touch the store at all: same tokens in the same
positions; only the `claimed` flag of the released comment differs. -/
theorem unclaim_store (n : Nat) (d : Doc) :
    (unclaimLeading n d).1.store.map Tk.core = d.store.map Tk.core ∧
    (unclaimTrailing n d).1.store.map Tk.core = d.store.map Tk.core :=
  ⟨unclaimLeading_core n d, unclaimTrailing_core n d⟩

/-- `unclaim_interleaving_comments` does not touch the store at all (positions, identities, texts). -/
theorem unclaim_inter_store {items : List Item} {set : Option (List Nat)} {s : Store} {o : UnclaimOut}
    (h : unclaimInterleaving items set s = .ok o) : o.store.map Tk.core = s.map Tk.core :=
  unclaimInterleaving_core h

/-- Any single attribution call on a document (claim/unclaim of leading, trailing, interleaving comments, refused
or not): visible tokens, the multiset of tokens and the printed text are unchanged; only placeholders moved. -/
theorem call_unchanged (d : Doc) (c : Call) (hs : PhEmpty d.store) :
    ((runCall d c).store.filter visible).map Tk.key = (d.store.filter visible).map Tk.key ∧
    ((runCall d c).store.map Tk.core).Perm (d.store.map Tk.core) ∧
    ((runCall d c).store.filter (fun t => !isPh t)).map Tk.core = (d.store.filter (fun t => !isPh t)).map Tk.core ∧
    textOf (runCall d c).store = textOf d.store :=
  have h := runCall_moved d c
  ⟨h.visible hs, h.perm, h.nonPh, h.text hs⟩

/-- `auto_claim_comments` (and any other sequence of attribution calls, of any length, with any arguments):
visible tokens — identities, order, texts — are those of the document before. -/
theorem autoClaim_visible (d : Doc) (calls : List Call) (hs : PhEmpty d.store) :
    ((autoClaim d calls).store.filter visible).map Tk.key = (d.store.filter visible).map Tk.key :=
  (autoClaim_moved d calls).visible hs

/-- `auto_claim_comments`: the store is a permutation of the store before, and only placeholders moved. -/
theorem autoClaim_perm (d : Doc) (calls : List Call) :
    ((autoClaim d calls).store.map Tk.core).Perm (d.store.map Tk.core) ∧
    ((autoClaim d calls).store.filter (fun t => !isPh t)).map Tk.core = (d.store.filter (fun t => !isPh t)).map Tk.core :=
  ⟨(autoClaim_moved d calls).perm, (autoClaim_moved d calls).nonPh⟩

/-- `auto_claim_comments`: the printed text is unchanged. -/
theorem autoClaim_text (d : Doc) (calls : List Call) (hs : PhEmpty d.store) :
    textOf (autoClaim d calls).store = textOf d.store :=
  (autoClaim_moved d calls).text hs

/-! ### Non-vacuity: concrete stores on which the calls succeed and do move a placeholder -/

/-- `aa: 1` EOL, the placeholder of the (empty) postings field, newline, `  ; c`: a comment directly below a meta
line with a placeholder in between. -/
def exBelow : Store :=
  [⟨1, .other, "aa:".toList, false⟩, ⟨2, .mark, [], false⟩, ⟨3, .placeholder, [], false⟩,
   ⟨4, .newline, "\n".toList, false⟩, ⟨5, .blockComment, "  ; c".toList, false⟩, ⟨6, .mark, [], false⟩]

/-- The trailing claim succeeds, returns comment 5 and moves placeholder 3 behind it. -/
example : (claimComment false false 2 exBelow).toOption.map (fun p => (p.1.map (·.id), p.2)) =
    some ([1, 2, 4, 5, 3, 6], some 5) := by decide

example : PhEmpty exBelow := by unfold PhEmpty exBelow; decide

example : textOf exBelow = "aa:\n  ; c".toList := by decide

/-- A comment directly above a posting, with a placeholder between comment and newline (left by an earlier
trailing claim): the leading claim moves the placeholder in front of the comment. -/
def exAbove : Store :=
  [⟨1, .mark, [], false⟩, ⟨2, .newline, "\n".toList, false⟩, ⟨3, .blockComment, "  ; c".toList, false⟩,
   ⟨4, .placeholder, [], false⟩, ⟨5, .newline, "\n".toList, false⟩, ⟨6, .other, "  ".toList, false⟩]

example : (claimComment true true 6 exAbove).toOption.map (fun p => (p.1.map (·.id), p.2)) =
    some ([1, 2, 4, 3, 5, 6], some 3) := by decide

/-- Interleaving claim on a postings field whose placeholder (4) sits after a comment (3) before a dedent:
`comments_before = [3]`, the placeholder is shifted in front of it. -/
example : (claimInterleaving 4 [] 0 7 none
      [⟨0, .other, "x".toList, false⟩, ⟨1, .mark, [], false⟩, ⟨2, .newline, "\n".toList, false⟩,
       ⟨3, .blockComment, "  ; c".toList, false⟩, ⟨4, .placeholder, [], false⟩, ⟨7, .mark, [], false⟩]).toOption.map
      (fun o => (o.store.map (·.id), o.comments)) = some ([0, 1, 2, 4, 3, 7], [3]) := by decide

end Autobean.C04
