import Autobean.Proofs.NumExpr
/-
C13 — number expressions evaluate and compose like ordinary arithmetic.

Model: `Autobean/Model/NumExpr.lean` (trees with their spacing, `tokensOf`, `eval` over a carrier without laws,
the reference parser `parseAdd`, and the operations of `number_expr.py` at tree level).
All theorems are for ALL trees, ALL spacings, ALL carriers `Arith α` (so in particular for `decimal.Decimal`
under any context) — nothing is bounded.

What is carried by the correspondence/oracle of `harness/props/c13.py` and NOT by these theorems:
that the Python objects implement these tree functions (which token object ends up in which store, that
`copy.deepcopy` really copies, that nothing is raised for attached operands), lark's tokenisation of the
printed text, and `decimal` itself.
-/
namespace Autobean.C13
open Autobean.NumExpr

/-! ## 1. Evaluation is the usual left-to-right fold on each precedence level -/

/-- The flat `raw_operands`/`raw_ops` view determines the product (the snoc encoding loses nothing). -/
theorem mul_ofList_head_tail : ∀ m : Mul, Mul.ofList m.head m.tail = m
  | .single a => rfl
  | .snoc m w1 o w2 a => by
    have ih := mul_ofList_head_tail m
    simp only [Mul.ofList] at ih
    simp [Mul.ofList, Mul.head, Mul.tail, List.foldl_append, ih]

theorem add_ofList_head_tail : ∀ e : Add, Add.ofList e.head e.tail = e
  | .single m => rfl
  | .snoc e w1 o w2 m => by
    have ih := add_ofList_head_tail e
    simp only [Add.ofList] at ih
    simp [Add.ofList, Add.head, Add.tail, List.foldl_append, ih]

/-- `NumberMulExpr.value`: the value of `a₀ ∘₁ a₁ ∘₂ … ∘ₙ aₙ` (`∘ᵢ ∈ {*, /}`) is `((a₀ ∘₁ a₁) ∘₂ …) ∘ₙ aₙ`:
the left fold over `zip(raw_ops, raw_operands[1:])` starting from `raw_operands[0]`. -/
theorem eval_left_assoc_mul {α} (A : Arith α) : ∀ m : Mul,
    m.eval A = m.tail.foldl (fun v x => x.2.1.bin A v (x.2.2.2.eval A)) (m.head.eval A)
  | .single a => by simp [Mul.eval, Mul.tail, Mul.head]
  | .snoc m w1 o w2 a => by
    simp [Mul.eval, Mul.tail, Mul.head, List.foldl_append, eval_left_assoc_mul A m]

/-- `NumberAddExpr.value`: sums/differences of products, folded from the left; products bind tighter because the
operands of this fold are whole `Mul`s, parenthesised sub-expressions and unary operands tighter still because
they are `Atom`s. -/
theorem eval_left_assoc {α} (A : Arith α) : ∀ e : Add,
    eval A e = e.tail.foldl (fun v x => x.2.1.bin A v (x.2.2.2.eval A)) (e.head.eval A)
  | .single m => by simp [Add.eval, Add.tail, Add.head]
  | .snoc e w1 o w2 m => by
    have ih := eval_left_assoc A e
    simp only [eval] at ih
    simp [Add.eval, Add.tail, Add.head, List.foldl_append, ih]

/-- Parentheses and unary plus do not change the value, unary minus negates it. -/
theorem eval_paren {α} (A : Arith α) (w1 w2 : Ws) (e : Add) : (Atom.paren w1 e w2).eval A = eval A e := by
  simp [Atom.eval]

theorem eval_unary_plus {α} (A : Arith α) (w : Ws) (a : Atom) : (Atom.unary .plus w a).eval A = a.eval A := by
  simp [Atom.eval, Sign.un]

theorem eval_unary_minus {α} (A : Arith α) (w : Ws) (a : Atom) :
    (Atom.unary .minus w a).eval A = A.neg (a.eval A) := by
  simp [Atom.eval, Sign.un]

/-! ## 2. The value of an operator application is the arithmetic result -/

/-- `a += b`, `a -= b` (and `a + b`, `a - b`, which apply the same to a copy of `a`). -/
theorem iaddsub_value {α} (A : Arith α) (a b : Add) (o : Sign) :
    eval A (iaddsub a b o) = o.bin A (eval A a) (eval A b) := by
  simp [iaddsub, Add.eval, asMulExpr_eval]

/-- `a *= b`, `a /= b` (and `a * b`, `a / b`). -/
theorem imuldiv_value {α} (A : Arith α) (a b : Add) (o : MulOp) :
    eval A (imuldiv a b o) = o.bin A (eval A a) (eval A b) := by
  simp [imuldiv, Add.eval, Mul.eval, asMulExpr_eval, asAtomExpr_eval]

theorem iadd_value {α} (A : Arith α) (a b : Add) : eval A (add a b) = A.add (eval A a) (eval A b) :=
  iaddsub_value A a b .plus

theorem isub_value {α} (A : Arith α) (a b : Add) : eval A (sub a b) = A.sub (eval A a) (eval A b) :=
  iaddsub_value A a b .minus

theorem imul_value {α} (A : Arith α) (a b : Add) : eval A (mul a b) = A.mul (eval A a) (eval A b) :=
  imuldiv_value A a b .times

theorem idiv_value {α} (A : Arith α) (a b : Add) : eval A (div a b) = A.div (eval A a) (eval A b) :=
  imuldiv_value A a b .over

/-- Reflected forms `self.__r∘__(other)`: the value is `other ∘ self`. -/
theorem radd_value {α} (A : Arith α) (self other : Add) :
    eval A (radd self other) = A.add (eval A other) (eval A self) := iadd_value A other self

theorem rsub_value {α} (A : Arith α) (self other : Add) :
    eval A (rsub self other) = A.sub (eval A other) (eval A self) := isub_value A other self

theorem rmul_value {α} (A : Arith α) (self other : Add) :
    eval A (rmul self other) = A.mul (eval A other) (eval A self) := imul_value A other self

theorem rdiv_value {α} (A : Arith α) (self other : Add) :
    eval A (rdiv self other) = A.div (eval A other) (eval A self) := idiv_value A other self

theorem neg_value {α} (A : Arith α) (a : Add) : eval A (neg a) = A.neg (eval A a) := by
  simp [unary, Add.eval, Mul.eval, Atom.eval, Sign.un, asAtomExpr_eval]

theorem pos_value {α} (A : Arith α) (a : Add) : eval A (pos a) = eval A a := by
  simp [unary, Add.eval, Mul.eval, Atom.eval, Sign.un, asAtomExpr_eval]

theorem wrap_value {α} (A : Arith α) (a : Add) : eval A (wrapWithParenthesis a) = eval A a := by
  simp [wrapWithParenthesis, wrapParen, Add.eval, Mul.eval, Atom.eval]

/-- `int`/`Decimal` operands enter through `NumberExpr.from_value`: a negative value becomes unary minus of its
absolute value. -/
theorem fromValue_value {α} (A : Arith α) (isNeg : Bool) (t : Text) :
    eval A (fromValue isNeg t) = valueOf A isNeg t := by
  cases isNeg <;> simp [fromValue, valueOf, Add.eval, Mul.eval, Atom.eval, Sign.un]

theorem applyBin_value {α} (A : Arith α) (o : BinOp) (a b : Add) :
    eval A (applyBin o a b) = o.bin A (eval A a) (eval A b) := by
  cases o
  · exact iadd_value A a b
  · exact isub_value A a b
  · exact imul_value A a b
  · exact idiv_value A a b

/-- One application (plain, in-place or reflected, binary or unary, or `wrap_with_parenthesis`). -/
theorem step_value {α} (A : Arith α) (cur : Add) (s : Step) :
    eval A (applyStep cur s) = stepVal A (eval A cur) s := by
  cases s with
  | bin o x => exact applyBin_value A o cur x
  | rbin o x => exact applyBin_value A o x cur
  | neg => exact neg_value A cur
  | pos => exact pos_value A cur
  | wrap => exact wrap_value A cur

/-- Chains of applications of any length: the value follows the arithmetic step by step. -/
theorem chain_value {α} (A : Arith α) (steps : List Step) : ∀ cur : Add,
    eval A (steps.foldl applyStep cur) = steps.foldl (stepVal A) (eval A cur) := by
  induction steps with
  | nil => intro cur; rfl
  | cons s ss ih => intro cur; simp only [List.foldl_cons]; rw [ih, step_value]

/-! ## 3. The printed text re-parses to the same tree -/

/-- Printing then parsing gives back the very same tree — spacing included — and consumes everything.
Holds for every tree: any nesting of parentheses and unary operators, any spacing. -/
theorem parse_tokens (e : Add) : parseAdd (tokensOf e) = some (e, []) := parseAdd_toks e

/-- The parser does not depend on how the lexer classified `+`/`-` (ADD_OP vs UNARY_OP): it decides by position. -/
theorem parse_class_blind (t₁ t₂ : List Token) (h : t₁.map Token.blind = t₂.map Token.blind) :
    parseAdd t₁ = parseAdd t₂ := by
  have hl : t₁.length = t₂.length := by simpa using congrArg List.length h
  simp [parseAdd, h, hl]

/-- Whatever tree prints to a token list (up to the sign classification), parsing finds that tree. -/
theorem parse_of_print (toks : List Token) (e : Add) (h : toks.map Token.blind = (tokensOf e).map Token.blind) :
    parseAdd toks = some (e, []) := by
  rw [parse_class_blind toks (tokensOf e) h]; exact parse_tokens e

/-- Conversely a successful parse consumed exactly the printing of the tree it returns: the tree is a faithful
reading of the text, nothing is dropped or invented. -/
theorem parse_sound (toks : List Token) (e : Add) (rest : List Token) (h : parseAdd toks = some (e, rest)) :
    toks.map Token.blind = (tokensOf e).map Token.blind ++ rest := parseAdd_sound toks e rest h

/-- Two trees with the same printing are the same tree: a text has one reading. -/
theorem print_injective (e₁ e₂ : Add) (h : (tokensOf e₁).map Token.blind = (tokensOf e₂).map Token.blind) :
    e₁ = e₂ := by
  have h1 := parse_of_print (tokensOf e₁) e₂ h
  rw [parse_tokens e₁] at h1
  simpa using h1

/-- The value of any parsed expression is the precedence-respecting left-to-right evaluation of its text:
if the text parses to `e`, then `e` prints back to the text and its value is the fold of `eval_left_assoc`. -/
theorem eval_parse {α} (A : Arith α) (toks : List Token) (e : Add) (h : parseAdd toks = some (e, [])) :
    toks.map Token.blind = (tokensOf e).map Token.blind ∧
    eval A e = e.tail.foldl (fun v x => x.2.1.bin A v (x.2.2.2.eval A)) (e.head.eval A) := by
  refine ⟨?_, eval_left_assoc A e⟩
  simpa using parse_sound toks e [] h

/-- After any application the printed text re-parses to a tree with the arithmetic value. -/
theorem op_reparse {α} (A : Arith α) (cur : Add) (s : Step) :
    ∃ e', parseAdd (tokensOf (applyStep cur s)) = some (e', []) ∧ eval A e' = stepVal A (eval A cur) s :=
  ⟨applyStep cur s, parse_tokens _, step_value A cur s⟩

theorem iadd_reparse {α} (A : Arith α) (a b : Add) :
    ∃ e', parseAdd (tokensOf (add a b)) = some (e', []) ∧ eval A e' = A.add (eval A a) (eval A b) :=
  ⟨add a b, parse_tokens _, iadd_value A a b⟩

theorem isub_reparse {α} (A : Arith α) (a b : Add) :
    ∃ e', parseAdd (tokensOf (sub a b)) = some (e', []) ∧ eval A e' = A.sub (eval A a) (eval A b) :=
  ⟨sub a b, parse_tokens _, isub_value A a b⟩

theorem imul_reparse {α} (A : Arith α) (a b : Add) :
    ∃ e', parseAdd (tokensOf (mul a b)) = some (e', []) ∧ eval A e' = A.mul (eval A a) (eval A b) :=
  ⟨mul a b, parse_tokens _, imul_value A a b⟩

theorem idiv_reparse {α} (A : Arith α) (a b : Add) :
    ∃ e', parseAdd (tokensOf (div a b)) = some (e', []) ∧ eval A e' = A.div (eval A a) (eval A b) :=
  ⟨div a b, parse_tokens _, idiv_value A a b⟩

theorem chain_reparse {α} (A : Arith α) (steps : List Step) (cur : Add) :
    ∃ e', parseAdd (tokensOf (steps.foldl applyStep cur)) = some (e', []) ∧
      eval A e' = steps.foldl (stepVal A) (eval A cur) :=
  ⟨_, parse_tokens _, chain_value A steps cur⟩

/-! ## 4. Parentheses are inserted exactly when the operand's top-level operator binds weaker -/

/-- `a ± b`, `b` without top-level `+`/`-`: the text is `a`, ` ± `, `b` — no parentheses. -/
theorem iaddsub_toks_plain (a b : Add) (o : Sign) (h : b.hasOps = false) :
    tokensOf (iaddsub a b o) = tokensOf a ++ [.ws [' '], .addOp o, .ws [' ']] ++ tokensOf b := by
  cases b with
  | single m => simp [iaddsub, asMulExpr, Add.toks, dfltWs, wsToks]
  | snoc => simp [Add.hasOps] at h

/-- `a ± b`, `b` with top-level `+`/`-`: `b` is parenthesised. -/
theorem iaddsub_toks_paren (a b : Add) (o : Sign) (h : b.hasOps = true) :
    tokensOf (iaddsub a b o) =
      tokensOf a ++ [.ws [' '], .addOp o, .ws [' '], .lparen] ++ tokensOf b ++ [.rparen] := by
  cases b with
  | single m => simp [Add.hasOps] at h
  | snoc => simp [iaddsub, asMulExpr, wrapParen, Add.toks, Mul.toks, Atom.toks, dfltWs, wsToks]

/-- The text of an operand as a factor: bare when it is a single atom, else parenthesised. -/
def factorToks (b : Add) (bare : Bool) : List Token :=
  if bare then tokensOf b else [.lparen] ++ tokensOf b ++ [.rparen]

theorem asMulExpr_toks (a : Add) : (asMulExpr a).toks = factorToks a (!a.hasOps) := by
  cases a <;> simp [asMulExpr, wrapParen, Add.hasOps, factorToks, Add.toks, Mul.toks, Atom.toks, wsToks]

theorem asAtomExpr_toks (b : Add) : (asAtomExpr b).toks = factorToks b (!b.hasOps && !b.head.hasOps) := by
  cases b with
  | snoc => simp [asAtomExpr, wrapParen, Add.hasOps, factorToks, Add.toks, Atom.toks, wsToks]
  | single m =>
    cases m <;>
      simp [asAtomExpr, wrapParen, Add.hasOps, Add.head, Mul.hasOps, factorToks, Add.toks, Mul.toks, Atom.toks, wsToks]

/-- `a */ b`: the left operand is parenthesised iff it has top-level `+`/`-`; the right operand iff it has
top-level `+`/`-` or `*`/`/`. -/
theorem imuldiv_toks (a b : Add) (o : MulOp) :
    tokensOf (imuldiv a b o) =
      factorToks a (!a.hasOps) ++ [.ws [' '], .mulOp o, .ws [' ']] ++ factorToks b (!b.hasOps && !b.head.hasOps) := by
  simp [imuldiv, Add.toks, Mul.toks, asMulExpr_toks, asAtomExpr_toks, dfltWs, wsToks]

/-- `±a`: the operand is parenthesised iff it has any top-level binary operator; no spacing is inserted. -/
theorem unary_toks (a : Add) (s : Sign) :
    tokensOf (unary a s) = .unaryOp s :: factorToks a (!a.hasOps && !a.head.hasOps) := by
  simp [unary, Add.toks, Mul.toks, Atom.toks, asAtomExpr_toks, wsToks]

/-! ## 5. What the model can say about "operands are left unchanged"

The functions are pure: `add a b` is a new tree and `a`, `b` are values, so "unchanged" is not expressible
as a theorem about them.  What the model does fix is WHERE the operand tokens go: the result's printing contains
the printing of each operand as a contiguous block (a copy), plus only operator, default spaces and parentheses.
That the Python objects behind `a`/`b` (and their documents) keep their tokens is checked on the real code by the
oracle (`print(a)`, `print(b)`, `print(owning file)` before/after) — carried by the correspondence, not by Lean. -/

theorem factorToks_infix (b : Add) (bare : Bool) : tokensOf b <:+: factorToks b bare := by
  cases bare
  · exact ⟨[.lparen], [.rparen], by simp [factorToks]⟩
  · exact ⟨[], [], by simp [factorToks]⟩

/-- `a ± b` starts with a copy of `a`'s tokens and contains a copy of `b`'s tokens. -/
theorem op_operands_unchanged_addsub (a b : Add) (o : Sign) :
    tokensOf a <+: tokensOf (iaddsub a b o) ∧ tokensOf b <:+: tokensOf (iaddsub a b o) := by
  constructor
  · exact ⟨_, rfl⟩
  · have h : (asMulExpr b).toks = factorToks b (!b.hasOps) := asMulExpr_toks b
    obtain ⟨p, q, hpq⟩ := factorToks_infix b (!b.hasOps)
    refine ⟨a.toks ++ (wsToks dfltWs ++ (.addOp o :: wsToks dfltWs)) ++ p, q, ?_⟩
    simp [iaddsub, Add.toks, h, ← hpq, List.append_assoc]

/-- `a */ b` contains a copy of `a`'s tokens and a copy of `b`'s tokens. -/
theorem op_operands_unchanged_muldiv (a b : Add) (o : MulOp) :
    tokensOf a <:+: tokensOf (imuldiv a b o) ∧ tokensOf b <:+: tokensOf (imuldiv a b o) := by
  rw [imuldiv_toks]
  obtain ⟨p, q, hpq⟩ := factorToks_infix a (!a.hasOps)
  obtain ⟨p', q', hpq'⟩ := factorToks_infix b (!b.hasOps && !b.head.hasOps)
  constructor
  · exact ⟨p, q ++ [.ws [' '], .mulOp o, .ws [' ']] ++ factorToks b (!b.hasOps && !b.head.hasOps),
      by simp [← hpq, List.append_assoc]⟩
  · exact ⟨factorToks a (!a.hasOps) ++ [.ws [' '], .mulOp o, .ws [' ']] ++ p', q',
      by simp [← hpq', List.append_assoc]⟩

/-- `±a` contains a copy of `a`'s tokens. -/
theorem op_operands_unchanged_unary (a : Add) (s : Sign) : tokensOf a <:+: tokensOf (unary a s) := by
  rw [unary_toks]
  obtain ⟨p, q, hpq⟩ := factorToks_infix a (!a.hasOps && !a.head.hasOps)
  exact ⟨.unaryOp s :: p, q, by simp [← hpq]⟩

/-! ## Non-vacuity: concrete instances -/

section Examples

private def n (c : Char) : Atom := .num [c]
/-- `1 + 2` -/
private def e12 : Add := .snoc (.single (.single (n '1'))) [[' ']] .plus [[' ']] (.single (n '2'))
/-- `3-4` -/
private def e34 : Add := .snoc (.single (.single (n '3'))) [] .minus [] (.single (n '4'))

/-- `(1 + 2) * (3-4)`: both operands get parentheses. -/
example : String.ofList (printToks (tokensOf (mul e12 e34))) = "(1 + 2) * (3-4)" := by decide
/-- `1 + 2 - (3-4)`: only the right operand. -/
example : String.ofList (printToks (tokensOf (sub e12 e34))) = "1 + 2 - (3-4)" := by decide
/-- `-(1 + 2)` and `--1`. -/
example : String.ofList (printToks (tokensOf (neg e12))) = "-(1 + 2)" := by decide
example : String.ofList (printToks (tokensOf (neg (neg (fromValue false ['1']))))) = "--1" := by decide
/-- `5 * x` with `x = 3-4`: reflected form, `5` enters through `from_value`. -/
example : String.ofList (printToks (tokensOf (rmul e34 (fromValue false ['5'])))) = "5 * (3-4)" := by decide
/-- the symbolic value of a chain `((1 + 2) * (3-4) - -2.5)` then negated -/
example : eval termArith ([Step.bin .mul e34, .bin .sub (fromValue true ['2', '.', '5']), .neg].foldl applyStep e12)
    = "(-(((1+2)*(3-4))-(-2.5)))" := by decide
/-- the parser on a text with unary chains, nested parentheses and odd spacing: `-( +2)*3 -4/5/6` -/
example : (parseAdd [.unaryOp .minus, .lparen, .ws [' '], .unaryOp .plus, .number ['2'], .rparen, .mulOp .times,
      .number ['3'], .ws [' '], .addOp .minus, .number ['4'], .mulOp .over, .number ['5'], .mulOp .over,
      .number ['6']]).map (fun r => (eval termArith r.1, r.2)) = some ("(((-2)*3)-((4/5)/6))", []) := by decide
/-- … and with every sign mis-classified by the lexer the result is the same -/
example : (parseAdd [.addOp .minus, .lparen, .ws [' '], .addOp .plus, .number ['2'], .rparen, .mulOp .times,
      .number ['3'], .ws [' '], .unaryOp .minus, .number ['4'], .mulOp .over, .number ['5'], .mulOp .over,
      .number ['6']]).map (fun r => (eval termArith r.1, r.2)) = some ("(((-2)*3)-((4/5)/6))", []) := by decide

end Examples

end Autobean.C13
