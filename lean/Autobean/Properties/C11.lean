/-
C11 — a deep copy is equal, exact and fully independent.

Model: `Autobean.deepcopy` (`Model/Tree.lean`), the transcription of `RawTreeModel.__deepcopy__`
(`models/base.py`): clone every token of `first_token..last_token` into a new store (fresh identities
`base, base+1, …`; `_clone` keeps class, text and `claimed`), then rebuild the tree through the generated
`clone` with the identity map (`MappingTokenTransformer`: a leaf outside the map is a `KeyError`).

All theorems are unbounded: any store, any tree, under the structural invariant `TInv` (DESIGN §3.3 items
1–2: store identities distinct, leaves in the store in depth-first order, every node tagged with the store).

What is modelled rather than proved: that the generated `clone` of every class passes every field
(`ClassSchema.cloneComplete`, `Model/SchemaWF.lean`, discharged over the extracted table), and aliasing of
Python objects other than tokens and nodes — see `frame_independent`.
-/
import Autobean.Proofs.TreeSeg
import Autobean.Proofs.TreeExample

namespace Autobean.C11
open Autobean List

/-- The renaming of a deep copy of `t` out of `s` with fresh identities from `base`. -/
def rename (base : Nat) (s : List TTk) (t : Tree) (i : Nat) : Nat := renOf base (ids (tokensOf s t)) i

/-- The copied token: same kind, text and `claimed`, new identity. -/
def renameTk (base : Nat) (s : List TTk) (t : Tree) (tk : TTk) : TTk := { tk with id := rename base s t tk.id }

/-- Under the invariant the deep copy is exactly: the tokens of the model's span, renamed; the tree, renamed
and re-tagged.  (All C11 theorems below are read off this.) -/
theorem deepcopy_spec {σ : Nat} {s : List TTk} {t : Tree} (base σ' : Nat) (h : TInv σ s t) :
    deepcopy base σ' s t = .ok (copyToks base (tokensOf s t), t.mapIds (rename base s t) σ') := by
  obtain ⟨A, C, _, hsub, _⟩ := tokensOf_decomp h.storeNodup h.leavesSub h.nonempty
  have hclone := clone_ok (renId base (ids (tokensOf s t))) σ' t
    (fun i hi => renId_isSome_of_mem (hsub.subset hi))
  have hne := h.nonempty
  have hall : ∀ i ∈ t.leaves, i ∈ ids s := fun i hi => h.leavesSub.subset hi
  unfold deepcopy
  by_cases hf : t.isFile = true
  · rw [if_pos hf]
    have hT : tokensOf s t = s := tokensOf_of_file hf
    rw [hT] at hclone
    simp only [hclone]
    unfold rename renOf
    rw [hT]
  · rw [if_neg hf]
    have hf' : t.isFile = false := by simpa using hf
    have hT : tokensOf s t = spanOf s t := tokensOf_of_not_file hf'
    rw [hT] at hclone
    unfold spanOf at hclone
    cases hL : t.leaves with
    | nil => exact absurd hL hne
    | cons f L =>
      rw [hL] at hclone hall
      have hlast : ∃ l, (f :: L).getLast? = some l ∧ l ∈ f :: L := by
        refine ⟨(f :: L).getLast (by simp), List.getLast?_eq_some_getLast (by simp), List.getLast_mem _⟩
      obtain ⟨l, hl, hlm⟩ := hlast
      rw [hl] at hclone ⊢
      simp only [List.head?_cons] at hclone ⊢
      rw [if_pos ⟨hall f (by simp), hall l hlm⟩]
      simp only [hclone]
      have hseg : tokensOf s t = seg s f l := by
        rw [hT]; unfold spanOf; rw [hL, hl]; rfl
      unfold rename renOf
      rw [hseg]

/-- **No `KeyError`.**  Under the invariant every leaf lies in `first_token..last_token`, so the identity
map is defined on every leaf and the copy succeeds — whatever the position of the placeholders inside the
span (claims re-order them; the invariant only asks for depth-first order). -/
theorem deepcopy_total {σ : Nat} {s : List TTk} {t : Tree} (base σ' : Nat) (h : TInv σ s t) :
    ∃ s' t', deepcopy base σ' s t = .ok (s', t') :=
  ⟨_, _, deepcopy_spec base σ' h⟩

/-- Every leaf of a model lies in the store slice from its first to its last leaf. -/
theorem leaves_in_span {σ : Nat} {s : List TTk} {t : Tree} (h : TInv σ s t) :
    ∀ i ∈ t.leaves, i ∈ ids (tokensOf s t) := by
  obtain ⟨_, _, _, hsub, _⟩ := tokensOf_decomp h.storeNodup h.leavesSub h.nonempty
  exact fun i hi => hsub.subset hi

/-- Converse of `deepcopy_total` for the failure path the property worries about: a leaf outside
`first_token..last_token` (the state left by the pre-`0f1862a` claim defect) makes the copy raise
`KeyError`. -/
theorem deepcopy_keyerror {s : List TTk} {t : Tree} (base σ' : Nat) {f l : Nat} (hnf : t.isFile = false)
    (hf : t.leaves.head? = some f) (hl : t.leaves.getLast? = some l) (hfs : f ∈ ids s) (hls : l ∈ ids s)
    (hout : ∃ i ∈ t.leaves, i ∉ ids (seg s f l)) :
    deepcopy base σ' s t = .error "KeyError" := by
  have hnone : ∀ (xs : List Nat) (b i : Nat), i ∉ xs → renId b xs i = none := by
    intro xs
    induction xs with
    | nil => intro b i _; rfl
    | cons x xs ih =>
      intro b i hi
      simp only [List.mem_cons, not_or] at hi
      simp [renId, Ne.symm hi.1, ih (b + 1) i hi.2]
  obtain ⟨i, hi, hni⟩ := hout
  unfold deepcopy
  rw [if_neg (by simp [hnf]), hf, hl]
  simp only
  rw [if_pos ⟨hfs, hls⟩]
  simp only [clone_error_of_unmapped (renId base (ids (seg s f l))) σ' t ⟨i, hi, hnone _ _ _ hni⟩]

/-- **The copied store** is the token list of the original model with every identity renamed — same
kinds, texts and `claimed` flags, in the same order. -/
theorem deepcopy_store {σ : Nat} {s : List TTk} {t : Tree} {base σ' : Nat} {s' : List TTk} {t' : Tree}
    (h : TInv σ s t) (hc : deepcopy base σ' s t = .ok (s', t')) :
    s' = (tokensOf s t).map (renameTk base s t) := by
  rw [deepcopy_spec base σ' h] at hc
  injection hc with hc
  injection hc with h1 h2
  have hnd : (ids (tokensOf s t)).Nodup := tokensOf_nodup h.storeNodup h.leavesSub h.nonempty
  rw [← h1, copyToks_eq_map base _ hnd]
  rfl

/-- The renaming is injective on the copied identities … -/
theorem rename_injective {σ : Nat} {s : List TTk} {t : Tree} (base : Nat) (h : TInv σ s t) {i j : Nat}
    (hi : i ∈ ids (tokensOf s t)) (hj : j ∈ ids (tokensOf s t))
    (hij : rename base s t i = rename base s t j) : i = j := by
  have hnd : (ids (tokensOf s t)).Nodup := tokensOf_nodup h.storeNodup h.leavesSub h.nonempty
  exact renOf_inj hnd hi hj hij

/-- … and onto the fresh identities `base, base+1, …, base+n-1` in order. -/
theorem deepcopy_ids {σ : Nat} {s : List TTk} {t : Tree} {base σ' : Nat} {s' : List TTk} {t' : Tree}
    (h : TInv σ s t) (hc : deepcopy base σ' s t = .ok (s', t')) :
    ids s' = List.range' base (tokensOf s t).length := by
  rw [deepcopy_spec base σ' h] at hc
  injection hc with hc
  injection hc with h1 h2
  rw [← h1, ids_copyToks_range]

/-- **Same tree.**  The copy has the same classes, field structure and `indent_by` as the original and its
leaves are the renamed leaves of the original, in the same order. -/
theorem deepcopy_shape {σ : Nat} {s : List TTk} {t : Tree} {base σ' : Nat} {s' : List TTk} {t' : Tree}
    (h : TInv σ s t) (hc : deepcopy base σ' s t = .ok (s', t')) :
    t'.shape = t.shape ∧ t'.leaves = t.leaves.map (rename base s t) := by
  rw [deepcopy_spec base σ' h] at hc
  injection hc with hc
  injection hc with h1 h2
  rw [← h2]
  exact ⟨Tree.shape_mapIds _ _ t, Tree.leaves_mapIds _ _ t⟩

theorem span_nodup {σ : Nat} {s : List TTk} {t : Tree} (h : TInv σ s t) :
    (ids (tokensOf s t)).Nodup := tokensOf_nodup h.storeNodup h.leavesSub h.nonempty

/-- **A complete tree in its own store.**  The copy satisfies the invariant in the new store (every node is
tagged with the new store, its leaves are distinct tokens of the new store in depth-first order), and it
spans exactly its whole store: `first_token`/`last_token` are the store's ends. -/
theorem deepcopy_inv {σ : Nat} {s : List TTk} {t : Tree} {base σ' : Nat} {s' : List TTk} {t' : Tree}
    (h : TInv σ s t) (hc : deepcopy base σ' s t = .ok (s', t')) :
    TInv σ' s' t' ∧ spansWholeStore s' t' := by
  have hshape := deepcopy_shape h hc
  have hidsr := deepcopy_ids h hc
  rw [deepcopy_spec base σ' h] at hc
  injection hc with hc
  injection hc with h1 h2
  obtain ⟨_, _, _, hsub, _⟩ := tokensOf_decomp h.storeNodup h.leavesSub h.nonempty
  have hnd := span_nodup h
  have hids : ids s' = (ids (tokensOf s t)).map (rename base s t) := by
    rw [← h1]; exact ids_copyToks base _ hnd
  have hnd' : (ids s').Nodup := by rw [hidsr]; exact List.nodup_range'
  have hne' : t'.leaves ≠ [] := by
    rw [hshape.2]; intro h0; exact h.nonempty (List.map_eq_nil_iff.mp h0)
  have hfile : t'.isFile = t.isFile := by rw [← Tree.isFile_shape t', hshape.1, Tree.isFile_shape]
  have hinner : t'.innerFileFree = true := by
    rw [← h2, Tree.innerFileFree_mapIds]; exact h.fileRoot
  have hinv : TInv σ' s' t' := by
    refine ⟨hnd', ?_, hne', ?_, hinner⟩
    · rw [hshape.2, hids]; exact hsub.map _
    · rw [← h2]; exact Tree.tags_mapIds _ _ t
  refine ⟨hinv, ?_⟩
  -- the copy spans its whole store
  unfold spansWholeStore
  by_cases hf : t.isFile = true
  · exact tokensOf_of_file (by rw [hfile]; exact hf)
  have hf0 : t.isFile = false := by simpa using hf
  have hf0' : t'.isFile = false := by rw [hfile]; exact hf0
  obtain ⟨hhead, hlast⟩ := tokensOf_ends h.storeNodup h.leavesSub h.nonempty hf0
  obtain ⟨hhead', hlast'⟩ := tokensOf_ends hnd' hinv.leavesSub hne' hf0'
  obtain ⟨A', C', hS', _, _⟩ := tokensOf_decomp hnd' hinv.leavesSub hne'
  have hh : (tokensOf s' t').head?.map (·.id) = s'.head?.map (·.id) := by
    rw [hhead', hshape.2, List.head?_map, ← hhead]
    have : (ids s').head? = ((ids (tokensOf s t)).map (rename base s t)).head? := by rw [hids]
    simpa [ids, List.head?_map] using this.symm
  have hl : (tokensOf s' t').getLast?.map (·.id) = s'.getLast?.map (·.id) := by
    rw [hlast', hshape.2, List.getLast?_map, ← hlast]
    have : (ids s').getLast? = ((ids (tokensOf s t)).map (rename base s t)).getLast? := by rw [hids]
    simpa [ids, List.getLast?_map] using this.symm
  generalize tokensOf s' t' = T at *
  -- `s' = A' ++ T ++ C'` with distinct identities, `T` and `s'` starting and ending with the same identity
  have hTne : T ≠ [] := by
    intro h0; subst h0
    cases hL : t'.leaves with
    | nil => exact hne' hL
    | cons a L => rw [hL] at hhead'; simp at hhead'
  have hA : A' = [] := by
    cases A' with
    | nil => rfl
    | cons a A' =>
      exfalso
      cases T with
      | nil => exact hTne rfl
      | cons x T =>
        rw [hS'] at hh hnd'
        simp only [List.cons_append, List.head?_cons, Option.map_some, Option.some.injEq] at hh
        simp only [List.cons_append, ids_cons, ids_append, List.nodup_cons, List.mem_append,
          List.mem_cons] at hnd'
        exact hnd'.1 (Or.inl (Or.inr (Or.inl hh.symm)))
  subst hA
  have hC : C' = [] := by
    cases hC : C' with
    | nil => rfl
    | cons c C'' =>
      exfalso
      obtain ⟨D, z, hz⟩ : ∃ D z, C' = D ++ [z] :=
        ⟨C'.dropLast, C'.getLast (by simp [hC]), (List.dropLast_concat_getLast (by simp [hC])).symm⟩
      obtain ⟨B, y, hy⟩ : ∃ B y, T = B ++ [y] :=
        ⟨T.dropLast, T.getLast hTne, (List.dropLast_concat_getLast hTne).symm⟩
      rw [hS', hz, hy] at hl hnd'
      have e1 : ([] ++ (B ++ [y]) ++ (D ++ [z])).getLast? = some z := by
        have e0 : [] ++ (B ++ [y]) ++ (D ++ [z]) = (B ++ [y] ++ D) ++ [z] := by simp
        rw [e0, List.getLast?_concat]
      rw [e1] at hl
      simp only [List.getLast?_concat, Option.map_some, Option.some.injEq] at hl
      simp only [List.nil_append, ids_append, ids_cons, ids_nil, List.nodup_append, List.mem_append,
        List.mem_cons, List.mem_nil_iff, or_false] at hnd'
      exact hnd'.2.2 y.id (Or.inr rfl) z.id (Or.inr rfl) hl
  subst hC
  simpa using hS'.symm

/-- **Equal.**  The copy compares equal to the original (C20's `==`, evaluated across the two stores). -/
theorem deepcopy_eq {σ : Nat} {s : List TTk} {t : Tree} {base σ' : Nat} {s' : List TTk} {t' : Tree}
    (h : TInv σ s t) (hc : deepcopy base σ' s t = .ok (s', t')) :
    treeEq s s' t t' = true := by
  have hshape := deepcopy_shape h hc
  obtain ⟨hinv, hspan⟩ := deepcopy_inv h hc
  unfold spansWholeStore at hspan
  rw [deepcopy_spec base σ' h] at hc
  injection hc with hc
  injection hc with h1 h2
  have hnd := span_nodup h
  have hids : ids s' = (ids (tokensOf s t)).map (rename base s t) := by
    rw [← h1]; exact ids_copyToks base _ hnd
  have hkt : s'.map TTk.kt = (tokensOf s t).map TTk.kt := by rw [← h1]; exact copyToks_kt base _
  exact treeEq_of_aligned_doc (ρ := rename base s t) h.storeNodup hinv.storeNodup h.leavesSub hinv.leavesSub
    h.nonempty h.fileRoot hshape.1.symm hshape.2 (by rw [hspan]; exact hids) (by rw [hspan]; exact hkt)

/-- And symmetrically `copy == original`. -/
theorem deepcopy_eq_symm {σ : Nat} {s : List TTk} {t : Tree} {base σ' : Nat} {s' : List TTk} {t' : Tree}
    (h : TInv σ s t) (hc : deepcopy base σ' s t = .ok (s', t')) :
    treeEq s' s t' t = true := by
  rw [treeEq_comm]; exact deepcopy_eq h hc

/-- **Exact.**  The copy prints exactly the text the original model spans. -/
theorem deepcopy_print {σ : Nat} {s : List TTk} {t : Tree} {base σ' : Nat} {s' : List TTk} {t' : Tree}
    (h : TInv σ s t) (hc : deepcopy base σ' s t = .ok (s', t')) :
    textOf s' = textOf (tokensOf s t) := by
  rw [deepcopy_spec base σ' h] at hc
  injection hc with hc
  injection hc with h1 h2
  rw [← h1]; exact copyToks_text base _

/-- The `claimed` flags are copied too (`BlockComment._clone` passes `claimed=self.claimed`). -/
theorem deepcopy_claimed {σ : Nat} {s : List TTk} {t : Tree} {base σ' : Nat} {s' : List TTk} {t' : Tree}
    (h : TInv σ s t) (hc : deepcopy base σ' s t = .ok (s', t')) :
    s'.map (·.claimed) = (tokensOf s t).map (·.claimed) := by
  rw [deepcopy_spec base σ' h] at hc
  injection hc with hc
  injection hc with h1 h2
  rw [← h1]; exact copyToks_claimed base _

/-- **Shares no token.**  With fresh identities above every identity of the original store, no token of the
copy is a token of the original. -/
theorem deepcopy_disjoint {σ : Nat} {s : List TTk} {t : Tree} {base σ' : Nat} {s' : List TTk} {t' : Tree}
    (h : TInv σ s t) (hc : deepcopy base σ' s t = .ok (s', t')) (hfresh : ∀ i ∈ ids s, i < base) :
    ∀ i, i ∈ ids s' → i ∉ ids s := by
  intro i hi hi'
  rw [deepcopy_ids h hc, List.mem_range'_1] at hi
  have := hfresh i hi'
  omega

/-- **Independent (frame).**  An edit of one document is a function of that document's store alone
(every store operation of Layer 1 is such a function: `List TTk → List TTk`).  It leaves every other store
— in particular one with disjoint identities — unchanged.  This is true *by purity of the model* and is
stated only to say so: in the model, documents are values and cannot alias.  Whether the Python objects
alias (a list, a token or a node shared between copy and original) is exactly what the model cannot see;
the harness checks it on the real objects (identity sets disjoint, then edits on either side with the
other side's text, structure and invariant compared before/after). -/
theorem frame_independent (world : List (List TTk)) (k j : Nat) (f : List TTk → List TTk) (hkj : k ≠ j) :
    (world.modify k f)[j]? = world[j]? := by
  simp [hkj]

/-- The same at token level: an edit that addresses tokens by identity (`g` keeps identities) and only
touches identities of the edited document changes no token of a document with disjoint identities. -/
theorem frame_independent_tokens (heap : List TTk) (touched : List Nat) (g : TTk → TTk) (other : List Nat)
    (hg : ∀ t, (g t).id = t.id) (hdisj : ∀ i ∈ touched, i ∉ other) :
    (heap.map fun t => if t.id ∈ touched then g t else t).filter (fun t => decide (t.id ∈ other)) =
      heap.filter (fun t => decide (t.id ∈ other)) := by
  induction heap with
  | nil => rfl
  | cons t ts ih =>
    simp only [List.map_cons]
    by_cases ht : t.id ∈ touched
    · have hno : t.id ∉ other := hdisj _ ht
      simp only [ht, if_true, List.filter_cons, hg, hno, decide_false]
      exact ih
    · simp only [ht, if_false, List.filter_cons]
      rw [ih]

/-- `reattach(store)` sets the store of every node. -/
theorem reattachAll_tag (σ : Nat) (t : Tree) : ∀ g ∈ (reattachAll σ t).tags, g = σ :=
  Tree.tags_mapIds id σ t

/-- `reattach` with the identity transformer changes neither leaves nor shape. -/
theorem reattachAll_leaves (σ : Nat) (t : Tree) : (reattachAll σ t).leaves = t.leaves := by
  simp [reattachAll, Tree.leaves_mapIds]

/-! ### Non-vacuity: the hypotheses hold on a concrete document (`Proofs/TreeExample.lean`) -/

section Examples
open Autobean.Example

/-- The parsed `File` and its `Open` directive (leading comment claimed, a comment item in `meta`) satisfy the
invariant. -/
example : TInv 7 exStore exFile ∧ TInv 7 exStore exOpen := by decide

/-- The concrete copy of the directive: 14 tokens with the fresh identities `100…113`, the leaves renamed in
order (the placeholders of `currencies` and `meta` included), every node in the new store `9`, same text. -/
example : (deepcopy 100 9 exStore exOpen).toOption.map (fun r => (ids r.1, r.2.leaves, r.2.tags, textOf r.1)) =
    some (List.range' 100 14, [100, 102, 104, 106, 107, 109, 110, 111, 113], [9, 9, 9],
      textOf (tokensOf exStore exOpen)) := by decide

/-- A `File` spans its whole store: its copy has all 16 tokens, the final line break (not a leaf) included. -/
example : (deepcopy 100 9 exStore exFile).toOption.map (fun r => (ids r.1, r.2.leaves, textOf r.1)) =
    some (List.range' 100 16, [100, 101, 103, 105, 107, 108, 110, 111, 112, 114], textOf exStore) := by decide

/-- All conclusions at once for that document (the theorems apply; nothing is vacuous). -/
example : ∃ s' t', deepcopy 100 9 exStore exOpen = .ok (s', t') ∧ TInv 9 s' t' ∧ spansWholeStore s' t' ∧
    treeEq exStore s' exOpen t' = true ∧ textOf s' = textOf (tokensOf exStore exOpen) ∧
    (∀ i, i ∈ ids s' → i ∉ ids exStore) := by
  have hinv : TInv 7 exStore exOpen := by decide
  obtain ⟨s', t', hc⟩ := deepcopy_total 100 9 hinv
  exact ⟨s', t', hc, (deepcopy_inv hinv hc).1, (deepcopy_inv hinv hc).2, deepcopy_eq hinv hc,
    deepcopy_print hinv hc, deepcopy_disjoint hinv hc (by decide)⟩

/-- Outside the invariant the copy can fail exactly as the Python does: a comment item in front of its
field's placeholder (the state the claim defect fixed by `0f1862a` used to leave) gives `KeyError`. -/
example : ¬ TInv 7 badStore badRep ∧ deepcopy 100 9 badStore badRep = .error "KeyError" :=
  ⟨by decide, rfl⟩

end Examples

end Autobean.C11
