import Autobean.Properties.C03
import Autobean.Properties.C15
import Autobean.Model.CustomVals
/-!
# C06 — what the model says is what the printed text says (model-side premises: `reparse_partial`)

"The printed document parses again to the same structure" needs the lexer and the parser, which are outside the
model; that clause is carried by the re-parse oracle on every explored history.  What is proved here are the
premises the edits have to supply — the *separator discipline*:

* a created optional child is kept apart from its pivot by exactly the declared separators, so if those have
  visible text the two never touch (`create_left_keeps_apart`, `create_right_keeps_apart`);
* removing it takes the gap with it and replacing it touches no separator (C03 `remove_frame`,
  `replace_frame`), so no two old neighbours that were apart become adjacent by a *replace*, and a *remove*
  leaves the pivot next to what followed the child — which the pivot chain makes the next declared field;
* in a repeated field every gap after an insertion / slice assignment is an old gap or a copy of the declared
  separators (`new_gaps_are_declared`, from C03 `rep_set_gaps`): the clause whose failure printed `BBBUSD`;
* a copy of a separator list whose texts are not all empty has visible text (`copy_visible`).

`Obligations.separators_non_empty` checks on the extracted schema that every optional / repeated field of
every generated class declares separators with visible text (zero-width marks excepted), and
`Obligations.pivots_canonical` / `pivots_not_cached` that the insertion point is the canonical, freshly
computed one.
-/
namespace Autobean.C06
open Autobean.Seq Autobean.Rep

def textOf (s : List Tk) : List Char := (s.map (·.text)).flatten

theorem textOf_append (a b : List Tk) : textOf (a ++ b) = textOf a ++ textOf b := by
  simp [textOf]

/-- A separator list has visible text when one of its tokens has. -/
def Visible (seps : List Tk) : Prop := ∃ t ∈ seps, t.text ≠ []

theorem visible_text {seps : List Tk} (h : Visible seps) : textOf seps ≠ [] := by
  obtain ⟨t, ht, hne⟩ := h
  intro hnil
  have hall : ∀ x ∈ seps.map (·.text), x = [] := List.flatten_eq_nil_iff.1 hnil
  exact hne (hall t.text (List.mem_map.2 ⟨t, ht, rfl⟩))

/-- A fresh copy of a separator list (same kinds and texts, new identities) is as visible as the template. -/
theorem copy_visible {tmpl xs : List Tk} (hc : IsCopy tmpl xs) (hv : Visible tmpl) : textOf xs ≠ [] := by
  have htext : xs.map (·.text) = tmpl.map (·.text) := by
    have := congrArg (List.map Prod.snd) hc
    simpa [List.map_map, Function.comp_def] using this
  have : textOf xs = textOf tmpl := by simp [textOf, htext]
  rw [this]
  exact visible_text hv

/-- **Optional-left child.** After creation the printed text is
`… pivot ⧺ separators ⧺ child ⧺ rest …`: the child is kept apart from its pivot by the declared separators
and nothing else changes. -/
theorem create_left_keeps_apart {L R a b : List Tk} {p : Tk} (seps child : List Tk)
    (h : Distinct (L ++ (a ++ p :: b) ++ R)) :
    ∃ s', Slots.createLeft (L ++ (a ++ p :: b) ++ R) p.id seps child = .ok s' ∧
      textOf s' = textOf (L ++ a ++ [p]) ++ textOf seps ++ textOf child ++ textOf (b ++ R) := by
  refine ⟨_, Autobean.C03.create_frame seps child h, ?_⟩
  simp [textOf, List.append_assoc]

/-- **Optional-right child.** `… child ⧺ separators ⧺ pivot …`. -/
theorem create_right_keeps_apart {L R a b : List Tk} {p : Tk} (seps child : List Tk)
    (h : Distinct (L ++ (a ++ p :: b) ++ R)) :
    ∃ s', Slots.createRight (L ++ (a ++ p :: b) ++ R) p.id seps child = .ok s' ∧
      textOf s' = textOf (L ++ a) ++ textOf child ++ textOf seps ++ textOf (p :: b ++ R) := by
  refine ⟨_, Autobean.C03.create_right_frame seps child h, ?_⟩
  simp [textOf, List.append_assoc]

/-- With visible separators the created child's text and the pivot's text do not touch. -/
theorem create_left_gap_visible {seps : List Tk} (hv : Visible seps) : textOf seps ≠ [] := visible_text hv

/-- **Repeated fields.** After a step-1 slice assignment (hence also insert / append / extend / delete, which
are instances) every gap between neighbouring items is an old gap or a fresh copy of the declared
`separators` / `separators_before`. -/
theorem new_gaps_are_declared (c : Cfg) (ctr : Nat) (pre mid post : List Seg) (vs : List (List Tk)) :
    GapsFrom c (pre ++ mid ++ post) (setSegs c ctr pre mid post vs) :=
  Autobean.C03.rep_set_gaps c ctr pre mid post vs

/-- … so when the declared separators are visible, every *new* gap is: two items are never glued together by
an edit (`AAA, , BBBUSD` is impossible). -/
theorem new_gaps_visible (c : Cfg) (ctr : Nat) (pre mid post : List Seg) (vs : List (List Tk))
    (hs : Visible c.seps) (hb : Visible c.sepsBefore) :
    ∀ g ∈ gapsOf (setSegs c ctr pre mid post vs), g ∈ gapsOf (pre ++ mid ++ post) ∨ textOf g ≠ [] := by
  intro g hg
  rcases new_gaps_are_declared c ctr pre mid post vs g hg with h | h | h
  · exact Or.inl h
  · exact Or.inr (copy_visible h hs)
  · exact Or.inr (copy_visible h hb)

/-- Constructed models obey the same discipline (C15): every emitted token is owned by the tree or is a copy of
a declared separator of that piece. -/
theorem constructed_only_separators (p : Construct.Piece) (t : Construct.Tk) (h : t ∈ Construct.emit p) :
    t ∈ Construct.owned p ∨ t ∈ Autobean.C15.sepsOf p :=
  Autobean.C15.emit_owned_or_separator p t h

/-! ## Custom values: the constructors' disambiguation (`_disambiguate_values`) -/
section CustomValues
open Autobean.CustomVals

theorem merges_step (a v : CVal) : merges a (step (decide (a.kind = .num)) v).1 = false := by
  rcases a with ⟨ak, as⟩; rcases v with ⟨k, s⟩
  cases ak <;> cases k <;> cases s <;> rfl

theorem step_unwrapped (p : Bool) (v : CVal) (h : (step p v).2 = false) : (step p v).1 = v := by
  unfold step at h ⊢
  split
  · rename_i hc; simp [hc] at h
  · rfl

theorem step_kind (p : Bool) (v : CVal) : (step p v).1.kind = v.kind := by
  unfold step; split <;> rfl

theorem mergeCount_disambFrom (p : Bool) (vs : List CVal) :
    mergeCount ((disambFrom p vs).map (·.1)) = 0 ∧
    ∀ a : CVal, (decide (a.kind = .num) = p) → ∀ r rest, (disambFrom p vs) = r :: rest → merges a r.1 = false := by
  induction vs generalizing p with
  | nil => exact ⟨rfl, fun _ _ _ _ h => by simp [disambFrom] at h⟩
  | cons v vs ih =>
    have ih' := ih (decide ((step p v).1.kind = .num))
    refine ⟨?_, ?_⟩
    · cases hvs : disambFrom (decide ((step p v).1.kind = .num)) vs with
      | nil => simp [disambFrom, hvs, mergeCount]
      | cons r rest =>
        have h1 := ih'.2 (step p v).1 rfl r rest hvs
        have h0 := ih'.1
        rw [hvs] at h0
        simp only [disambFrom, hvs, List.map_cons, mergeCount, h1]
        simpa using h0
    · intro a ha r rest h
      simp only [disambFrom, List.cons.injEq] at h
      rw [← h.1, ← ha]
      exact merges_step a v

theorem disambFrom_length (p : Bool) (ws : List CVal) : (disambFrom p ws).length = ws.length := by
  induction ws generalizing p with
  | nil => rfl
  | cons v ws ih => simp [disambFrom, ih]

/-- **Every value survives.** The sequence the constructors emit contains no number expression directly followed
by a sign-leading number / amount, so the reader merges nothing: it reads back as many values as were given. -/
theorem disamb_reads_all (vs : List CVal) : readCount ((disamb vs).map (·.1)) = vs.length := by
  unfold readCount disamb
  rw [(mergeCount_disambFrom false vs).1, List.length_map, disambFrom_length]
  rfl

/-- Nothing but the leading sign flag of a wrapped value changes (kinds, order and number of values are kept), and a
value that was not wrapped is yielded as it came. -/
theorem disamb_only_wraps (p : Bool) (vs : List CVal) :
    ((disambFrom p vs).map (·.1.kind)) = vs.map (·.kind) ∧
    ∀ r ∈ disambFrom p vs, r.2 = false → r.1 ∈ vs := by
  induction vs generalizing p with
  | nil => exact ⟨rfl, fun _ h => by simp [disambFrom] at h⟩
  | cons v vs ih =>
    have ih' := ih (decide ((step p v).1.kind = .num))
    refine ⟨?_, ?_⟩
    · simp only [disambFrom, List.map_cons, step_kind]
      rw [(ih (decide (v.kind = .num))).1]
    · intro r hr h2
      simp only [disambFrom, List.mem_cons] at hr
      rcases hr with rfl | hr
      · rw [step_unwrapped p v h2]; exact List.mem_cons_self
      · exact List.mem_cons_of_mem _ (ih'.2 r hr h2)

/-! Non-vacuity, and why the flag must be set again after a wrapped value: `1 -2 -3` becomes `1 (-2) (-3)` - were the
second wrap skipped ("a parenthesised number is self-delimiting"), `(-2) -3` would read as one expression. -/
example : (disamb [⟨.num, false⟩, ⟨.num, true⟩, ⟨.num, true⟩]).map (·.2) = [false, true, true] := by decide
example : readCount [⟨.num, false⟩, ⟨.num, false⟩, ⟨.num, true⟩] = 2 := by decide

end CustomValues

/-! Non-vacuity: the separators of `Open._booking` (one blank) are visible. -/
example : Visible [⟨1, 0, [' ']⟩] := ⟨⟨1, 0, [' ']⟩, by simp, by simp⟩

end Autobean.C06
