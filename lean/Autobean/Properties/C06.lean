namespace Autobean.C06
/-- placeholder until the model for this property lands (the check then audits the real theorems) -/
theorem placeholder_true : True := trivial
end Autobean.C06
