import Autobean.Model.Refuse
import Autobean.Properties.C07
/-!
# C19 — a refused operation leaves the document exactly as it was

The refusing operations are written in the statement order of the Python in a state monad whose raise keeps
the state reached so far.  `refused_unchanged_*`: whenever the model raises, the state it returns is the state
it started from.  `reuse_refused`: a node that is not the whole of its store is always refused by `detach`.
The witnesses show that the orders *before* the `fix:` commits did not have the property (so the theorems are
about the order of statements, not true by construction).  The store-level refusal ("already in a store") is
`C07.spliceCore_rejects_foreign`.
-/
namespace Autobean.C19
open Autobean.Refuse

theorem reusable_all_free : ∀ (seen : List Nat) (vals : List Donor), reusable seen vals = true →
    ∀ d ∈ vals, d.attached = false := by
  intro seen vals
  induction vals generalizing seen with
  | nil => intro _ d hd; cases hd
  | cons v vs ih =>
    intro h d hd
    simp only [reusable, Bool.and_eq_true, Bool.not_eq_true'] at h
    rcases List.mem_cons.1 hd with rfl | hd
    · exact h.1.1
    · exact ih _ h.2 d hd

/-- After a successful batch validation no `detach` of the batch can raise. -/
theorem detachAll_ok {σ : Type} (vals : List Donor) (h : ∀ d ∈ vals, d.attached = false) (s : σ) :
    detachAll vals s = (.ok (), s) := by
  induction vals with
  | nil => rfl
  | cons v vs ih =>
    have hv : v.attached = false := h v (by simp)
    have h1 : detach (σ := σ) v s = (.ok (), s) := by simp [detach, hv, pure]
    rw [detachAll, bind_ok h1]
    exact ih (fun d hd => h d (by simp [hd]))

theorem checkReusable_ok {σ : Type} (vals : List Donor) (s : σ) (hr : reusable [] vals = true) :
    checkReusable vals s = (.ok (), s) := by simp [checkReusable, hr, pure]

theorem checkReusable_err {σ : Type} (vals : List Donor) (s : σ) (hr : ¬ reusable [] vals = true) :
    checkReusable vals s = (.error "ValueError:reuse", s) := by simp [checkReusable, hr, raiseE]

/-- **Slice assignment / extend.** If the call raises, the document is exactly what it was. -/
theorem refused_unchanged_setSlice {σ : Type} (del : σ → σ) (ins : List Donor → σ → σ) (vals : List Donor)
    (s s' : σ) (e : String) (h : setSlice del ins vals s = (.error e, s')) : s' = s := by
  unfold setSlice at h
  by_cases hr : reusable [] vals = true
  · rw [bind_ok (checkReusable_ok vals s hr)] at h
    have h2 : modifyS del s = (.ok (), del s) := rfl
    rw [bind_ok h2, bind_ok (detachAll_ok vals (reusable_all_free [] vals hr) (del s))] at h
    simp [modifyS] at h
  · rw [bind_err (checkReusable_err vals s hr)] at h
    exact (Prod.mk.inj h).2.symm

/-- … and it raises exactly when some value is attached elsewhere or occurs twice. -/
theorem setSlice_raises_iff {σ : Type} (del : σ → σ) (ins : List Donor → σ → σ) (vals : List Donor) (s : σ) :
    (∃ e s', setSlice del ins vals s = (.error e, s')) ↔ reusable [] vals = false := by
  unfold setSlice
  by_cases hr : reusable [] vals = true
  · have h2 : modifyS del s = (.ok (), del s) := rfl
    rw [bind_ok (checkReusable_ok vals s hr), bind_ok h2,
      bind_ok (detachAll_ok vals (reusable_all_free [] vals hr) (del s))]
    simp [modifyS, hr]
  · rw [bind_err (checkReusable_err vals s hr)]
    simp at hr
    simp [hr]

/-- Witness: with the statement order before the repair (delete, then detach) a refused call has already
deleted the target range. -/
theorem setSliceOld_witness :
    setSliceOld (σ := List Nat) (fun l => l.drop 2) (fun _ l => l) [⟨7, false⟩, ⟨3, true⟩] [1, 2, 3] =
      (.error "ValueError:reuse", [3]) := rfl

theorem loop_ok {σ : Type} (assign : Nat → Donor → σ → σ) (vals : List Donor)
    (h : ∀ d ∈ vals, d.attached = false) (i : Nat) (s : σ) :
    ∃ s', viewSetSliceLoop assign i vals s = (.ok (), s') := by
  induction vals generalizing i s with
  | nil => exact ⟨s, rfl⟩
  | cons v vs ih =>
    have hv : v.attached = false := h v (by simp)
    have h1 : detach (σ := σ) v s = (.ok (), s) := by simp [detach, hv, pure]
    have h2 : modifyS (assign i v) s = (.ok (), assign i v s) := rfl
    obtain ⟨s', hs'⟩ := ih (fun d hd => h d (by simp [hd])) (i + 1) (assign i v s)
    exact ⟨s', by rw [viewSetSliceLoop, bind_ok h1, bind_ok h2]; exact hs'⟩

/-- **Slice assignment through a filtered view.** A raise (wrong size, attached or duplicated value) leaves
the list untouched: no prefix of the batch has been assigned. -/
theorem refused_unchanged_viewSetSlice {σ : Type} (selected : Nat) (assign : Nat → Donor → σ → σ)
    (vals : List Donor) (s s' : σ) (e : String)
    (h : viewSetSlice selected assign vals s = (.error e, s')) : s' = s := by
  unfold viewSetSlice at h
  by_cases hsz : selected = vals.length
  · simp only [hsz, ne_eq, not_true_eq_false, ite_false] at h
    by_cases hr : reusable [] vals = true
    · obtain ⟨s2, hs2⟩ := loop_ok assign vals (reusable_all_free [] vals hr) 0 s
      rw [bind_ok (checkReusable_ok vals s hr), hs2] at h
      simp at h
    · rw [bind_err (checkReusable_err vals s hr)] at h
      exact (Prod.mk.inj h).2.symm
  · simp only [ne_eq, hsz, not_false_eq_true, ite_true] at h
    exact (Prod.mk.inj h).2.symm

/-- **Token raw_text setter.** A text the type cannot parse leaves text and value as they were; an accepted
text makes them describe each other. -/
theorem refused_unchanged_setRawText {V : Type} (parse : List Char → Option V) (txt : List Char)
    (t t' : TokState V) (e : String) (h : setRawText parse txt t = (.error e, t')) : t' = t := by
  unfold setRawText at h
  cases hp : parse txt with
  | none => rw [hp] at h; exact (Prod.mk.inj h).2.symm
  | some v => rw [hp] at h; simp [modifyS] at h

theorem accepted_setRawText {V : Type} (parse : List Char → Option V) (txt : List Char) (t t' : TokState V)
    (h : setRawText parse txt t = (.ok (), t')) : t'.text = txt ∧ parse t'.text = some t'.value := by
  unfold setRawText at h
  cases hp : parse txt with
  | none => rw [hp] at h; simp [raiseE] at h
  | some v =>
    rw [hp] at h
    have := (Prod.mk.inj h).2
    subst this
    exact ⟨rfl, hp⟩

/-- Witness: the order before the repair kept the rejected text. -/
theorem setRawTextOld_witness :
    (setRawTextOld (V := Nat) (fun _ => none) ['x'] ⟨['1'], 1⟩).2.text = ['x'] := rfl

/-- **Re-use is refused.** `detach` succeeds only for a node that is the whole of its store; anything that
lives inside a larger document raises `Cannot reuse node`. -/
theorem reuse_refused (store : List Nat) (first last : Nat)
    (h : store.head? ≠ some first ∨ store.getLast? ≠ some last) :
    detachNode store first last = .error "ValueError:reuse" := by
  unfold detachNode
  rcases h with h | h <;> simp [h]

theorem detach_whole_store (store : List Nat) (first last : Nat)
    (h1 : store.head? = some first) (h2 : store.getLast? = some last) :
    detachNode store first last = .ok store := by
  simp [detachNode, h1, h2]

/-- **unclaim_interleaving_comments.** A raise ("comment(s) not found") leaves every item and flag untouched. -/
theorem refused_unchanged_unclaim (wanted : List Nat) (items items' : List (Nat × Bool × Bool)) (e : String)
    (h : unclaimInterleaving wanted items = (.error e, items')) : items' = items := by
  unfold unclaimInterleaving at h
  simp only at h
  split at h
  · exact (Prod.mk.inj h).2.symm
  · simp at h

/-- The store itself refuses a token that lives in another store ("Token already in a store"); being a
pure function of the store, the refusal changes nothing (see `C07.spliceCore_rejects_foreign`). -/
theorem store_rejects_foreign (c : LF) (s : Store) (ts : List Tok) (start stop : Nat × Nat)
    (hall : ∀ t ∈ ts, t.h = none ∨ ∃ hd, t.h = some hd ∧ hd.sid ≠ s.sid)
    (hex : ∃ t ∈ ts, ∃ hd, t.h = some hd ∧ hd.sid ≠ s.sid) :
    spliceCore c s ts start stop = .error "ValueError:already-in-store" :=
  Autobean.C07.spliceCore_rejects_foreign c s ts start stop hall hex

/-! Non-vacuity: a refused and an accepted batch. -/
example : ∃ e s', setSlice (σ := List Nat) (fun l => l.drop 1) (fun _ l => l) [⟨7, false⟩, ⟨3, true⟩] [1, 2] = (.error e, s') ∧ s' = [1, 2] :=
  ⟨"ValueError:reuse", [1, 2], rfl, rfl⟩
example : setSlice (σ := List Nat) (fun l => l.drop 1) (fun v l => v.map (·.id) ++ l) [⟨7, false⟩, ⟨8, false⟩] [1, 2] = (.ok (), [7, 8, 2]) := rfl

end Autobean.C19
