import Autobean.Model.Refuse
import Autobean.Properties.C07
/-!
# C19 — a refused operation leaves the document exactly as it was

The refusing operations are written in the statement order of the Python in a state monad whose raise keeps
the state reached so far.  `refused_unchanged_*`: whenever the model raises, the state it returns is the state
it started from.  `reuse_refused`: a node that is not the whole of its store is always refused by `detach`.
The witnesses show that the orders *before* the `fix:` commits did not have the property (so the theorems are
about the order of statements, not true by construction).  The store-level refusal ("already in a store") is
`C07.spliceCore_rejects_foreign`.  Further sites: `refused_unchanged_setPayee` (witness `setPayeeOld_witness`),
`refused_unchanged_setCostNumber(/Bare)` (witness `setCostNumberOld_witness`), `refused_unchanged_claim`.
-/
namespace Autobean.C19
open Autobean.Refuse

theorem reusable_all_free : ∀ (seen : List Nat) (vals : List Donor), reusable seen vals = true →
    ∀ d ∈ vals, d.attached = false := by
  intro seen vals
  induction vals generalizing seen with
  | nil => intro _ d hd; cases hd
  | cons v vs ih =>
    intro h d hd
    simp only [reusable, Bool.and_eq_true, Bool.not_eq_true'] at h
    rcases List.mem_cons.1 hd with rfl | hd
    · exact h.1.1
    · exact ih _ h.2 d hd

/-- After a successful batch validation no `detach` of the batch can raise. -/
theorem detachAll_ok {σ : Type} (vals : List Donor) (h : ∀ d ∈ vals, d.attached = false) (s : σ) :
    detachAll vals s = (.ok (), s) := by
  induction vals with
  | nil => rfl
  | cons v vs ih =>
    have hv : v.attached = false := h v (by simp)
    have h1 : detach (σ := σ) v s = (.ok (), s) := by simp [detach, hv, pure]
    rw [detachAll, bind_ok h1]
    exact ih (fun d hd => h d (by simp [hd]))

theorem checkReusable_ok {σ : Type} (vals : List Donor) (s : σ) (hr : reusable [] vals = true) :
    checkReusable vals s = (.ok (), s) := by simp [checkReusable, hr, pure]

theorem checkReusable_err {σ : Type} (vals : List Donor) (s : σ) (hr : ¬ reusable [] vals = true) :
    checkReusable vals s = (.error "ValueError:reuse", s) := by simp [checkReusable, hr, raiseE]

/-- **Slice assignment / extend.** If the call raises, the document is exactly what it was. -/
theorem refused_unchanged_setSlice {σ : Type} (del : σ → σ) (ins : List Donor → σ → σ) (vals : List Donor)
    (s s' : σ) (e : String) (h : setSlice del ins vals s = (.error e, s')) : s' = s := by
  unfold setSlice at h
  by_cases hr : reusable [] vals = true
  · rw [bind_ok (checkReusable_ok vals s hr)] at h
    have h2 : modifyS del s = (.ok (), del s) := rfl
    rw [bind_ok h2, bind_ok (detachAll_ok vals (reusable_all_free [] vals hr) (del s))] at h
    simp [modifyS] at h
  · rw [bind_err (checkReusable_err vals s hr)] at h
    exact (Prod.mk.inj h).2.symm

/-- … and it raises exactly when some value is attached elsewhere or occurs twice. -/
theorem setSlice_raises_iff {σ : Type} (del : σ → σ) (ins : List Donor → σ → σ) (vals : List Donor) (s : σ) :
    (∃ e s', setSlice del ins vals s = (.error e, s')) ↔ reusable [] vals = false := by
  unfold setSlice
  by_cases hr : reusable [] vals = true
  · have h2 : modifyS del s = (.ok (), del s) := rfl
    rw [bind_ok (checkReusable_ok vals s hr), bind_ok h2,
      bind_ok (detachAll_ok vals (reusable_all_free [] vals hr) (del s))]
    simp [modifyS, hr]
  · rw [bind_err (checkReusable_err vals s hr)]
    simp at hr
    simp [hr]

/-- Witness: with the statement order before the repair (delete, then detach) a refused call has already
deleted the target range. -/
theorem setSliceOld_witness :
    setSliceOld (σ := List Nat) (fun l => l.drop 2) (fun _ l => l) [⟨7, false⟩, ⟨3, true⟩] [1, 2, 3] =
      (.error "ValueError:reuse", [3]) := rfl

theorem loop_ok {σ : Type} (assign : Nat → Donor → σ → σ) (vals : List Donor)
    (h : ∀ d ∈ vals, d.attached = false) (i : Nat) (s : σ) :
    ∃ s', viewSetSliceLoop assign i vals s = (.ok (), s') := by
  induction vals generalizing i s with
  | nil => exact ⟨s, rfl⟩
  | cons v vs ih =>
    have hv : v.attached = false := h v (by simp)
    have h1 : detach (σ := σ) v s = (.ok (), s) := by simp [detach, hv, pure]
    have h2 : modifyS (assign i v) s = (.ok (), assign i v s) := rfl
    obtain ⟨s', hs'⟩ := ih (fun d hd => h d (by simp [hd])) (i + 1) (assign i v s)
    exact ⟨s', by rw [viewSetSliceLoop, bind_ok h1, bind_ok h2]; exact hs'⟩

/-- **Slice assignment through a filtered view.** A raise (wrong size, attached or duplicated value) leaves
the list untouched: no prefix of the batch has been assigned. -/
theorem refused_unchanged_viewSetSlice {σ : Type} (selected : Nat) (assign : Nat → Donor → σ → σ)
    (vals : List Donor) (s s' : σ) (e : String)
    (h : viewSetSlice selected assign vals s = (.error e, s')) : s' = s := by
  unfold viewSetSlice at h
  by_cases hsz : selected = vals.length
  · simp only [hsz, ne_eq, not_true_eq_false, ite_false] at h
    by_cases hr : reusable [] vals = true
    · obtain ⟨s2, hs2⟩ := loop_ok assign vals (reusable_all_free [] vals hr) 0 s
      rw [bind_ok (checkReusable_ok vals s hr), hs2] at h
      simp at h
    · rw [bind_err (checkReusable_err vals s hr)] at h
      exact (Prod.mk.inj h).2.symm
  · simp only [ne_eq, hsz, not_false_eq_true, ite_true] at h
    exact (Prod.mk.inj h).2.symm

/-- **Token raw_text setter.** A text the type cannot parse leaves text and value as they were; an accepted
text makes them describe each other. -/
theorem refused_unchanged_setRawText {V : Type} (parse : List Char → Option V) (txt : List Char)
    (t t' : TokState V) (e : String) (h : setRawText parse txt t = (.error e, t')) : t' = t := by
  unfold setRawText at h
  cases hp : parse txt with
  | none => rw [hp] at h; exact (Prod.mk.inj h).2.symm
  | some v => rw [hp] at h; simp [modifyS] at h

theorem accepted_setRawText {V : Type} (parse : List Char → Option V) (txt : List Char) (t t' : TokState V)
    (h : setRawText parse txt t = (.ok (), t')) : t'.text = txt ∧ parse t'.text = some t'.value := by
  unfold setRawText at h
  cases hp : parse txt with
  | none => rw [hp] at h; simp [raiseE] at h
  | some v =>
    rw [hp] at h
    have := (Prod.mk.inj h).2
    subst this
    exact ⟨rfl, hp⟩

/-- Witness: the order before the repair kept the rejected text. -/
theorem setRawTextOld_witness :
    (setRawTextOld (V := Nat) (fun _ => none) ['x'] ⟨['1'], 1⟩).2.text = ['x'] := rfl

/-- **Re-use is refused.** `detach` succeeds only for a node that is the whole of its store; anything that
lives inside a larger document raises `Cannot reuse node`. -/
theorem reuse_refused (store : List Nat) (first last : Nat)
    (h : store.head? ≠ some first ∨ store.getLast? ≠ some last) :
    detachNode store first last = .error "ValueError:reuse" := by
  unfold detachNode
  rcases h with h | h <;> simp [h]

theorem detach_whole_store (store : List Nat) (first last : Nat)
    (h1 : store.head? = some first) (h2 : store.getLast? = some last) :
    detachNode store first last = .ok store := by
  simp [detachNode, h1, h2]

/-- **unclaim_interleaving_comments.** A raise ("comment(s) not found") leaves every item and flag untouched. -/
theorem refused_unchanged_unclaim (wanted : List Nat) (items items' : List (Nat × Bool × Bool)) (e : String)
    (h : unclaimInterleaving wanted items = (.error e, items')) : items' = items := by
  unfold unclaimInterleaving at h
  simp only at h
  split at h
  · exact (Prod.mk.inj h).2.symm
  · simp at h

/-- The store itself refuses a token that lives in another store ("Token already in a store"); being a
pure function of the store, the refusal changes nothing (see `C07.spliceCore_rejects_foreign`). -/
theorem store_rejects_foreign (c : LF) (s : Store) (ts : List Tok) (start stop : Nat × Nat)
    (hall : ∀ t ∈ ts, t.h = none ∨ ∃ hd, t.h = some hd ∧ hd.sid ≠ s.sid)
    (hex : ∃ t ∈ ts, ∃ hd, t.h = some hd ∧ hd.sid ≠ s.sid) :
    spliceCore c s ts start stop = .error "ValueError:already-in-store" :=
  Autobean.C07.spliceCore_rejects_foreign c s ts start stop hall hex

/-! ## More refusal sites: payee setter, cost number setters, `claim_interleaving_comments` -/

theorem bind_apply {σ α β : Type} (m : M σ α) (f : α → M σ β) (s : σ) :
    (m >>= f) s = match m s with
      | (.ok a, s') => f a s'
      | (.error e, s') => (.error e, s') := rfl

theorem pure_apply {σ α : Type} (a : α) (s : σ) : (pure a : M σ α) s = (.ok a, s) := rfl

theorem detach_free {σ : Type} (d : Donor) (s : σ) (h : d.attached = false) : detach d s = (.ok (), s) := by
  simp [detach, h, pure_apply]

theorem detach_attached {σ : Type} (d : Donor) (s : σ) (h : d.attached = true) :
    detach d s = (.error "ValueError:reuse", s) := by
  simp [detach, h, raiseE]

/-- **`txn.raw_payee = value`.**  If the assignment raises (the value is attached elsewhere), nothing has been touched:
in particular no empty narration has been created. -/
theorem refused_unchanged_setPayee {σ : Type} (set1 : Option Nat → σ → σ) (narrNone : σ → Bool) (mkNarr : σ → σ)
    (v : Option Donor) (s s' : σ) (e : String) (h : setPayee set1 narrNone mkNarr v s = (.error e, s')) : s' = s := by
  unfold setPayee at h
  cases v with
  | none =>
    simp [assignString1, fixNarration, bind_apply, modifyS, getS, pure_apply] at h
  | some d =>
    by_cases ha : d.attached = true
    · have h1 : assignString1 set1 (some d) s = (.error "ValueError:reuse", s) := by
        simp only [assignString1]; exact bind_err (detach_attached d s ha)
      rw [bind_err h1] at h
      exact (Prod.mk.inj h).2.symm
    · have ha' : d.attached = false := by simpa using ha
      have h1 : assignString1 set1 (some d) s = (.ok (), set1 (some d.id) s) := by
        simp only [assignString1]; rw [bind_ok (detach_free d s ha')]; rfl
      rw [bind_ok h1] at h
      simp only [fixNarration, bind_apply, getS] at h
      split at h <;> simp [modifyS, pure_apply] at h

/-- … it raises exactly for an attached value, and an accepted call sets the slot and then fixes the narration. -/
theorem setPayee_raises_iff {σ : Type} (set1 : Option Nat → σ → σ) (narrNone : σ → Bool) (mkNarr : σ → σ)
    (v : Option Donor) (s : σ) :
    (∃ e s', setPayee set1 narrNone mkNarr v s = (.error e, s')) ↔ ∃ d, v = some d ∧ d.attached = true := by
  unfold setPayee
  cases v with
  | none => simp [assignString1, fixNarration, bind_apply, modifyS, getS, pure_apply]
  | some d =>
    by_cases ha : d.attached = true
    · have h1 : assignString1 set1 (some d) s = (.error "ValueError:reuse", s) := by
        simp only [assignString1]; exact bind_err (detach_attached d s ha)
      rw [bind_err h1]
      simp [ha]
    · have ha' : d.attached = false := by simpa using ha
      have h1 : assignString1 set1 (some d) s = (.ok (), set1 (some d.id) s) := by
        simp only [assignString1]; rw [bind_ok (detach_free d s ha')]; rfl
      rw [bind_ok h1]
      simp only [fixNarration, bind_apply, getS]
      split <;> simp [modifyS, pure_apply, ha']

/-- Witness: with the order before the repair (empty narration first) a refused `raw_payee = attached` on
`2000-01-01 *` has left the empty narration (id 0) behind. -/
theorem setPayeeOld_witness :
    setPayeeOld (σ := TxnStrings) (fun v t => { t with string1 := v }) (fun t => t.string2.isNone)
        (fun t => { t with string2 := some 0 }) (some ⟨7, true⟩) ⟨none, none⟩ =
      (.error "ValueError:reuse", ⟨none, some 0⟩) := rfl

/-- … while the repaired order refuses the same call with the header untouched, and accepts a free value. -/
theorem setPayee_witness :
    setPayee (σ := TxnStrings) (fun v t => { t with string1 := v }) (fun t => t.string2.isNone)
        (fun t => { t with string2 := some 0 }) (some ⟨7, true⟩) ⟨none, none⟩ =
      (.error "ValueError:reuse", ⟨none, none⟩) ∧
    setPayee (σ := TxnStrings) (fun v t => { t with string1 := v }) (fun t => t.string2.isNone)
        (fun t => { t with string2 := some 0 }) (some ⟨7, false⟩) ⟨none, none⟩ =
      (.ok (), ⟨some 7, some 0⟩) := ⟨rfl, rfl⟩

theorem buildComp_free {σ κ : Type} (mk : Donor → σ → κ) (v : Donor) (s : σ) (h : v.attached = false) :
    buildComp mk v s = (.ok (mk v s), s) := by
  unfold buildComp
  rw [bind_ok (detach_free v s h)]
  rfl

theorem buildComp_attached {σ κ : Type} (mk : Donor → σ → κ) (v : Donor) (s : σ) (h : v.attached = true) :
    buildComp mk v s = (.error "ValueError:reuse", s) := by
  unfold buildComp
  exact bind_err (detach_attached v s h)

/-- **`cost.raw_number_per / raw_number_total = value` where the brace kind changes.**  If building the new component
raises (attached value), the braces have not been flipped and no component has been stored. -/
theorem refused_unchanged_setCostNumber {σ κ : Type} (mk : Donor → σ → κ) (flip : σ → σ) (store : κ → σ → σ)
    (v : Donor) (s s' : σ) (e : String) (h : setCostNumber mk flip store v s = (.error e, s')) : s' = s := by
  unfold setCostNumber at h
  by_cases ha : v.attached = true
  · rw [bind_err (buildComp_attached mk v s ha)] at h
    exact (Prod.mk.inj h).2.symm
  · have ha' : v.attached = false := by simpa using ha
    rw [bind_ok (buildComp_free mk v s ha')] at h
    simp [bind_apply, modifyS] at h

/-- An accepted call flips and stores the component built from the *un-flipped* cost. -/
theorem accepted_setCostNumber {σ κ : Type} (mk : Donor → σ → κ) (flip : σ → σ) (store : κ → σ → σ)
    (v : Donor) (s : σ) (h : v.attached = false) :
    setCostNumber mk flip store v s = (.ok (), store (mk v s) (flip s)) := by
  unfold setCostNumber
  rw [bind_ok (buildComp_free mk v s h)]
  rfl

/-- The bare-number branch (`raw_number_comp = value`, then flip). -/
theorem refused_unchanged_setCostNumberBare {σ : Type} (flip : σ → σ) (store : Nat → σ → σ)
    (v : Donor) (s s' : σ) (e : String) (h : setCostNumberBare flip store v s = (.error e, s')) : s' = s := by
  unfold setCostNumberBare at h
  by_cases ha : v.attached = true
  · rw [bind_err (detach_attached v s ha)] at h
    exact (Prod.mk.inj h).2.symm
  · have ha' : v.attached = false := by simpa using ha
    rw [bind_ok (detach_free v s ha')] at h
    simp [bind_apply, modifyS] at h

/-- Witness: with the order before the repair (flip, then build) a refused `raw_number_per = attached` on `{{2 EUR}}`
has turned the cost into `{2 EUR}`. -/
theorem setCostNumberOld_witness :
    setCostNumberOld (σ := CostBraces) (κ := Nat) (fun v _ => v.id) (fun c => { c with total := !c.total })
        (fun k c => { c with comps := [k] }) ⟨9, true⟩ ⟨true, [4]⟩ =
      (.error "ValueError:reuse", ⟨false, [4]⟩) ∧
    setCostNumberBareOld (σ := CostBraces) (fun c => { c with total := !c.total })
        (fun k c => { c with comps := [k] }) ⟨9, true⟩ ⟨true, []⟩ =
      (.error "ValueError:reuse", ⟨false, []⟩) := ⟨rfl, rfl⟩

theorem setCostNumber_witness :
    setCostNumber (σ := CostBraces) (κ := Nat) (fun v _ => v.id) (fun c => { c with total := !c.total })
        (fun k c => { c with comps := [k] }) ⟨9, true⟩ ⟨true, [4]⟩ =
      (.error "ValueError:reuse", ⟨true, [4]⟩) ∧
    setCostNumber (σ := CostBraces) (κ := Nat) (fun v _ => v.id) (fun c => { c with total := !c.total })
        (fun k c => { c with comps := [k] }) ⟨9, false⟩ ⟨true, [4]⟩ =
      (.ok (), ⟨false, [9]⟩) := ⟨rfl, rfl⟩

/-- **`claim_interleaving_comments(comments)`.**  A raise ("comment(s) not found") happens before any placeholder is
shifted, any flag set or `items` replaced: the document is exactly what it was. -/
theorem refused_unchanged_claim {σ : Type} (find : σ → Found) (wanted : Option (List Nat))
    (shiftBefore shiftAfter : List Nat → σ → σ) (commit : Found → σ → σ) (s s' : σ) (e : String)
    (h : claimInterleaving find wanted shiftBefore shiftAfter commit s = (.error e, s')) : s' = s := by
  unfold claimInterleaving at h
  simp only [bind_apply, getS] at h
  split at h
  · exact (Prod.mk.inj h).2.symm
  · simp [bind_apply, whenS, modifyS, pure_apply] at h

/-- … it raises exactly when a named comment was not met by the searches (never for `comments=None`). -/
theorem claim_raises_iff {σ : Type} (find : σ → Found) (wanted : Option (List Nat))
    (shiftBefore shiftAfter : List Nat → σ → σ) (commit : Found → σ → σ) (s : σ) :
    (∃ e s', claimInterleaving find wanted shiftBefore shiftAfter commit s = (.error e, s')) ↔
      notFound wanted (find s) ≠ [] := by
  unfold claimInterleaving
  simp only [bind_apply, getS]
  split
  · rename_i hn
    simp [raiseE, hn]
  · rename_i hn
    simp [bind_apply, whenS, modifyS, pure_apply, hn]

theorem claim_all_never_raises {σ : Type} (find : σ → Found) (shiftBefore shiftAfter : List Nat → σ → σ)
    (commit : Found → σ → σ) (s : σ) :
    ¬ ∃ e s', claimInterleaving find none shiftBefore shiftAfter commit s = (.error e, s') := by
  rw [claim_raises_iff]; simp [notFound]

/-- Witness (hypothetical order, see `claimInterleavingCheckLast`): checking after the shifts would leave the
placeholder moved when comment 9 is not found (state = token order; 1 = comment before, 0 = placeholder). -/
theorem claimCheckLast_witness :
    claimInterleavingCheckLast (σ := List Nat) (fun _ => ⟨[1], [(2, false)], []⟩) (some [1, 9])
        (fun _ l => l.reverse) (fun _ l => l) (fun _ l => l) [1, 0] =
      (.error "ValueError:notfound", [0, 1]) ∧
    claimInterleaving (σ := List Nat) (fun _ => ⟨[1], [(2, false)], []⟩) (some [1, 9])
        (fun _ l => l.reverse) (fun _ l => l) (fun _ l => l) [1, 0] =
      (.error "ValueError:notfound", [1, 0]) ∧
    claimInterleaving (σ := List Nat) (fun _ => ⟨[1], [(2, false)], []⟩) (some [1])
        (fun _ l => l.reverse) (fun _ l => l) (fun _ l => l) [1, 0] =
      (.ok [1], [0, 1]) := ⟨rfl, rfl, rfl⟩

/-! Non-vacuity: a refused and an accepted batch. -/
example : ∃ e s', setSlice (σ := List Nat) (fun l => l.drop 1) (fun _ l => l) [⟨7, false⟩, ⟨3, true⟩] [1, 2] = (.error e, s') ∧ s' = [1, 2] :=
  ⟨"ValueError:reuse", [1, 2], rfl, rfl⟩
example : setSlice (σ := List Nat) (fun l => l.drop 1) (fun v l => v.map (·.id) ++ l) [⟨7, false⟩, ⟨8, false⟩] [1, 2] = (.ok (), [7, 8, 2]) := rfl

end Autobean.C19
