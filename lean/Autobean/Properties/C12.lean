import Autobean.Proofs.CodecSimple
import Autobean.Proofs.CodecBCTotal
import Autobean.Proofs.CodecNum
import Autobean.Proofs.CodecAccCur
/-!
# C12 — token value, raw text and lexer agree for every value in the domain

Model: `Autobean/Model/Codec.lean` (`fmtX` = `_format_value`, `parseX` = `_parse_value`, `lexX` = the lark terminal as
`re.match` at a line start).  Per class, on an explicit decidable domain:

* `X_parse_format`  — `_parse_value(_format_value(v)) == v`            (so `from_value(v)` is consistent and lexes back to `v`)
* `X_lex_format`    — the terminal lexes `_format_value(v) ++ rest` as exactly `_format_value(v)`, for every `rest` that
                      cannot extend the lexeme (condition stated on `rest`; `Stops p rest` = "`rest` is empty or its first
                      character does not satisfy `p`")
* `X_parse_total`   — every lexeme of the terminal is accepted by `_parse_value` (`from_raw_text` stores the text verbatim
                      by construction: `cls(raw_text, cls._parse_value(raw_text))`)
* `X_setter_machine`— after any sequence of value / raw_text (/ indent) assignments the text parses to the value.

Domains (and why):
* EscapedString: every string.
* InlineComment: no `\r`/`\n` (INLINE_COMMENT is `;[^\r\n]*`) and no leading space (`_parse_value` strips all leading
  spaces, so such a value is not the meaning of any lexeme).
* BlockComment: indent in `[ \t]*` (WHITESPACE); value whose every `\r` is inside a `\r*\n` run — inside BLOCK_COMMENT a
  line is `;[^\r\n]*` and lines are joined by `\r*\n`, so a `\r` not followed by `\r*\n` cannot be represented.
  `parse ∘ format = id` itself needs neither restriction (only: the indent has no `;` and no `\n`).
* Tag/Link `[A-Za-z0-9-_/.]+`, MetaKey `[a-z][a-zA-Z0-9-_]+`, TransactionFlag one of `*!&#?%PSTCURM`
  (`txn` is a lexeme whose meaning is `*`), Bool both values.
* Date: `validDate` = `datetime.date(y, m, d)` exists (1 ≤ y ≤ 9999, real calendar day).
* Number: every `(coeff, exp)` (finite, sign bit 0); equality is numeric (`Dec.eqv` = `Decimal.__eq__`).
-/
namespace Autobean.C12
open Autobean.Codec

/-! ## the setter machine, generically -/

/-- A token class: `_format_value`, `_parse_value`, the values assignments range over, and value equality (`==`). -/
structure Codec (V : Type) where
  format : V → Text
  parse : Text → Except String V
  Dom : V → Prop
  eqv : V → V → Prop

/-- Observable state of a token: `raw_text` and the stored value (for BlockComment: `(indent, value)`). -/
structure Tok (V : Type) where
  text : Text
  value : V

/-- `update f`: a value-side assignment (`tok.value = v` is `update (fun _ => v)`; for BlockComment `tok.value = v` is
`update (fun (i, _) => (i, v))` and `tok.indent = i` is `update (fun (_, v) => (i, v))`).
`setRawText t`: `tok.raw_text = t`. -/
inductive Op (V : Type) where
  | update (f : V → V)
  | setRawText (t : Text)

/-- The setters of `SingleValueRawTokenModel` / `BlockComment`: format (resp. parse) first, then store both fields;
a raising `_parse_value` leaves the token untouched. -/
def Codec.step {V} (c : Codec V) (s : Tok V) : Op V → Tok V
  | .update f => ⟨c.format (f s.value), f s.value⟩
  | .setRawText t =>
    match c.parse t with
    | .ok v => ⟨t, v⟩
    | .error _ => s

/-- "value and raw text describe each other": `T.from_raw_text(tok.raw_text).value == tok.value`. -/
def Codec.Consistent {V} (c : Codec V) (s : Tok V) : Prop := ∃ v', c.parse s.text = .ok v' ∧ c.eqv v' s.value

/-- every value-side assignment of the sequence assigns a value of the domain -/
def Codec.OpsOK {V} (c : Codec V) : Tok V → List (Op V) → Prop
  | _, [] => True
  | s, op :: ops =>
    (match op with
      | .update f => c.Dom (f s.value)
      | .setRawText _ => True) ∧ c.OpsOK (c.step s op) ops

structure Codec.Sound {V} (c : Codec V) : Prop where
  refl : ∀ v, c.eqv v v
  parse_format : ∀ v, c.Dom v → ∃ v', c.parse (c.format v) = .ok v' ∧ c.eqv v' v

theorem step_consistent {V} (c : Codec V) (hc : c.Sound) (s : Tok V) (op : Op V)
    (h0 : c.Consistent s) (hop : match op with | .update f => c.Dom (f s.value) | .setRawText _ => True) :
    c.Consistent (c.step s op) := by
  cases op with
  | update f => exact hc.parse_format _ hop
  | setRawText t =>
    simp only [Codec.step]
    split
    · rename_i v hv; exact ⟨v, hv, hc.refl v⟩
    · exact h0

/-- After any sequence of assignments (value-side ones taken from the domain, raw-text ones arbitrary — accepted or
rejected), the token's text parses to (a value equal to) the token's value. -/
theorem setter_machine {V} (c : Codec V) (hc : c.Sound) (ops : List (Op V)) (s : Tok V)
    (h0 : c.Consistent s) (hok : c.OpsOK s ops) : c.Consistent (ops.foldl c.step s) := by
  induction ops generalizing s with
  | nil => exact h0
  | cons op ops ih => exact ih (c.step s op) (step_consistent c hc s op h0 hok.1) hok.2

/-- … and this holds after every step, not only at the end. -/
theorem setter_machine_prefix {V} (c : Codec V) (hc : c.Sound) (ops : List (Op V)) (s : Tok V)
    (h0 : c.Consistent s) (hok : c.OpsOK s ops) (k : Nat) : c.Consistent ((ops.take k).foldl c.step s) := by
  induction ops generalizing s k with
  | nil => simpa using h0
  | cons op ops ih =>
    cases k with
    | zero => simpa using h0
    | succ k => exact ih (c.step s op) (step_consistent c hc s op h0 hok.1) hok.2 k

/-- A rejected raw-text assignment changes nothing. -/
theorem rejected_unchanged {V} (c : Codec V) (s : Tok V) (t : Text) (e : String) (h : c.parse t = .error e) :
    c.step s (.setRawText t) = s := by simp [Codec.step, h]

/-- An accepted raw-text assignment stores the text verbatim together with its meaning. -/
theorem accepted_verbatim {V} (c : Codec V) (s : Tok V) (t : Text) (v : V) (h : c.parse t = .ok v) :
    c.step s (.setRawText t) = ⟨t, v⟩ := by simp [Codec.step, h]

/-- `from_value(v)` is consistent for `v` in the domain. -/
theorem fromValue_consistent {V} (c : Codec V) (hc : c.Sound) (v : V) (h : c.Dom v) :
    c.Consistent ⟨c.format v, v⟩ := hc.parse_format v h

/-- `from_raw_text(t)`, when it does not raise, is consistent. -/
theorem fromRawText_consistent {V} (c : Codec V) (hc : c.Sound) (t : Text) (v : V) (h : c.parse t = .ok v) :
    c.Consistent ⟨t, v⟩ := ⟨v, h, hc.refl v⟩

/-! ## EscapedString — all strings -/

def strCodec : Codec Text := ⟨fmtStr, fun t => .ok (parseStr t), fun _ => True, Eq⟩

/-- `unescape(escape(s)) == s` for every string: quotes, backslashes, newlines, separators, anything. -/
theorem str_unescape_escape (s : Text) : unescape (escape s) = s := unescape_escape s

/-- `EscapedString._parse_value(_format_value(v)) == v` for every string. -/
theorem str_parse_format (v : Text) : parseStr (fmtStr v) = v := parseStr_fmtStr v

/-- ESCAPED_STRING lexes `_format_value(v)` back as exactly one lexeme, whatever follows it (no condition on `rest`:
the closing quote is the earliest unescaped one). -/
theorem str_lex_format (v rest : Text) : lexStr (fmtStr v ++ rest) = some (fmtStr v, rest) := lexStr_fmtStr v rest

/-- The produced raw text is one ESCAPED_STRING token whose value is `v`. -/
theorem str_round_trip (v : Text) : lexStr (fmtStr v) = some (fmtStr v, []) ∧ parseStr (fmtStr v) = v :=
  ⟨by simpa using lexStr_fmtStr v [], parseStr_fmtStr v⟩

/-- `_parse_value` never raises (it is `unescape(raw_text[1:-1])`), so every lexeme is accepted. -/
theorem str_parse_total (s : Text) : ∃ v, strCodec.parse s = .ok v := ⟨_, rfl⟩

theorem str_sound : strCodec.Sound := ⟨fun _ => rfl, fun v _ => ⟨v, by simp [strCodec, parseStr_fmtStr], rfl⟩⟩

/-- Any sequence of `value = <any string>` / `raw_text = <any text>` assignments keeps value and text in agreement. -/
theorem str_setter_machine (ops : List (Op Text)) (s : Tok Text) (h0 : strCodec.Consistent s)
    (hok : strCodec.OpsOK s ops) : strCodec.Consistent (ops.foldl strCodec.step s) :=
  setter_machine strCodec str_sound ops s h0 hok

/-! ## BlockComment — indent `[ \t]*`, value with every `\r` inside a `\r*\n` run -/

/-- value = `(indent, value)`; the machine only needs the indent to contain neither `;` nor `\n`
(true of every indent in `[ \t]*`, and of every indent `_parse_value` returns). -/
def bcCodec : Codec (Text × Text) :=
  ⟨fun iv => fmtBC iv.1 iv.2, parseBC, fun iv => ';' ∉ iv.1 ∧ '\n' ∉ iv.1, Eq⟩

theorem indent_ok_of_dom (i : Text) (h : domIndent i = true) : ';' ∉ i ∧ '\n' ∉ i := by
  have h' : ∀ c ∈ i, isBlank c = true := by simpa [domIndent] using h
  exact ⟨fun e => absurd (h' _ e) (by decide), fun e => absurd (h' _ e) (by decide)⟩

/-- `BlockComment._parse_value(_format_value(indent, v)) == (indent, v)` for every indent in `[ \t]*` and EVERY value
(also values outside the lexable domain; leading blanks of a line survive because exactly one space is added and
removed). -/
theorem bc_parse_format (indent v : Text) (hi : domIndent indent = true) :
    parseBC (fmtBC indent v) = .ok (indent, v) :=
  parseBC_fmtBC indent v (indent_ok_of_dom indent hi).1 (indent_ok_of_dom indent hi).2

/-- BLOCK_COMMENT lexes `_format_value(indent, v)` back as exactly one lexeme when `v` is in the domain and `rest` is
empty or starts with `\r`/`\n` (`Stops notEol`) and is not the start of one more comment line of the same kind
(`StopBC`: `rest` does not match `\r*\n` followed by `[ \t]+;` — resp. `;` for a top-level comment). -/
theorem bc_lex_format (indent v rest : Text) (hi : domIndent indent = true) (hv : domBCValue v = true)
    (hr : Stops notEol rest) (hs : StopBC (!indent.isEmpty) rest) :
    lexBC (fmtBC indent v ++ rest) = some (fmtBC indent v, rest) := lexBC_fmtBC indent v rest hi hv hr hs

/-- The usual situation in a file, with the condition on `rest` spelled out on its first characters: the comment is
followed by a line feed and then a character `c` that cannot start another comment line of the same kind
(`c ≠ ';'` after a top-level comment; `c` not a blank after an indented one). -/
theorem bc_lex_format_nl (indent v : Text) (c : Char) (r : Text) (hi : domIndent indent = true) (hv : domBCValue v = true)
    (hc : if indent.isEmpty then c ≠ ';' else isBlank c = false) :
    lexBC (fmtBC indent v ++ '\n' :: c :: r) = some (fmtBC indent v, '\n' :: c :: r) := by
  apply lexBC_fmtBC indent v _ hi hv (Or.inr ⟨'\n', _, rfl, by decide⟩)
  refine Or.inr ⟨['\n'], c :: r, by simp [lexNewline], ?_⟩
  cases indent with
  | nil =>
    simp only [List.isEmpty_nil, if_true] at hc
    simp [lexBCLine, lexIC, hc]
  | cons w ws =>
    have hc' : isBlank c = false := by simpa using hc
    simp [lexBCLine, hc']

/-- The produced raw text is one BLOCK_COMMENT token whose indent and value are the given ones. -/
theorem bc_round_trip (indent v : Text) (hi : domIndent indent = true) (hv : domBCValue v = true) :
    lexBC (fmtBC indent v) = some (fmtBC indent v, []) ∧ parseBC (fmtBC indent v) = .ok (indent, v) :=
  ⟨by simpa using lexBC_fmtBC indent v [] hi hv (Or.inl rfl) (stopBC_nil _), bc_parse_format indent v hi⟩

/-- Every BLOCK_COMMENT lexeme is accepted by `_parse_value` (every line of it contains a `;`). -/
theorem bc_parse_total (s x r : Text) (h : lexBC s = some (x, r)) : ∃ iv, parseBC x = .ok iv := parseBC_of_lexBC s x r h

theorem bc_sound : bcCodec.Sound :=
  ⟨fun _ => rfl, fun iv h => ⟨iv, by simpa [bcCodec] using parseBC_fmtBC iv.1 iv.2 h.1 h.2, rfl⟩⟩

/-- Any sequence of `value = v` (any string), `indent = i` (`i` without `;`/`\n`), `raw_text = t` (any text) assignments
keeps `(indent, value)` and text in agreement, provided each value-side assignment happens while the indent has no
`;`/`\n` (`OpsOK`). -/
theorem bc_setter_machine (ops : List (Op (Text × Text))) (s : Tok (Text × Text)) (h0 : bcCodec.Consistent s)
    (hok : bcCodec.OpsOK s ops) : bcCodec.Consistent (ops.foldl bcCodec.step s) :=
  setter_machine bcCodec bc_sound ops s h0 hok

/-- the three assignments of `BlockComment` -/
inductive BCOp where
  | setValue (v : Text)
  | setIndent (i : Text)
  | setRawText (t : Text)

def BCOp.toOp : BCOp → Op (Text × Text)
  | .setValue v => .update fun iv => (iv.1, v)
  | .setIndent i => .update fun iv => (i, iv.2)
  | .setRawText t => .setRawText t

/-- The indent `_parse_value` returns (the text before the first `;` of the first line) has no `;` and no `\n`. -/
theorem bc_parsed_indent_ok (t i v : Text) (h : parseBC t = .ok (i, v)) : ';' ∉ i ∧ '\n' ∉ i := parseBC_indent_ok t i v h

/-- The property's last sentence for BlockComment, with no side condition on the history: start from a token whose text
parses to its `(indent, value)` (any `from_raw_text`, any `from_value` with an indent free of `;`/`\n`); apply ANY
sequence of `value = v` (any string), `raw_text = t` (any text, accepted or rejected), `indent = i` (any `i` free of
`;` and `\n`, e.g. `[ \t]*`).  Afterwards — and after every step — `_parse_value(raw_text) == (indent, value)`. -/
theorem bc_setter_machine_any (ops : List BCOp) (s : Tok (Text × Text))
    (h0 : parseBC s.text = .ok s.value)
    (hops : ∀ op ∈ ops, match op with | .setIndent i => ';' ∉ i ∧ '\n' ∉ i | _ => True) :
    parseBC ((ops.map BCOp.toOp).foldl bcCodec.step s).text = .ok ((ops.map BCOp.toOp).foldl bcCodec.step s).value := by
  induction ops generalizing s with
  | nil => exact h0
  | cons op ops ih =>
    simp only [List.map_cons, List.foldl_cons]
    apply ih
    · have hi := parseBC_indent_ok s.text s.value.1 s.value.2 h0
      cases op with
      | setValue v => exact parseBC_fmtBC _ _ hi.1 hi.2
      | setIndent i =>
        have := hops (.setIndent i) (by simp)
        exact parseBC_fmtBC _ _ this.1 this.2
      | setRawText t =>
        simp only [BCOp.toOp, Codec.step, bcCodec]
        split
        · rename_i v hv; exact hv
        · exact h0
    · exact fun op' h' => hops op' (by simp [h'])

/-! ## InlineComment — no `\r`/`\n`, no leading space -/

def icCodec : Codec Text := ⟨fmtIC, fun t => .ok (parseIC t), fun v => domIC v = true, Eq⟩

theorem ic_parse_format (v : Text) (h : domIC v = true) : parseIC (fmtIC v) = v := parseIC_fmtIC v h

/-- INLINE_COMMENT lexes the text back when `rest` is empty or starts with `\r`/`\n`. -/
theorem ic_lex_format (v rest : Text) (h : domIC v = true) (hr : Stops notEol rest) :
    lexIC (fmtIC v ++ rest) = some (fmtIC v, rest) := by
  simp only [domIC, Bool.and_eq_true] at h
  exact lexIC_fmtIC v rest h.1 hr

theorem ic_parse_total (s : Text) : ∃ v, icCodec.parse s = .ok v := ⟨_, rfl⟩

theorem ic_sound : icCodec.Sound := ⟨fun _ => rfl, fun v h => ⟨v, by simp [icCodec, parseIC_fmtIC v h], rfl⟩⟩

theorem ic_setter_machine (ops : List (Op Text)) (s : Tok Text) (h0 : icCodec.Consistent s)
    (hok : icCodec.OpsOK s ops) : icCodec.Consistent (ops.foldl icCodec.step s) :=
  setter_machine icCodec ic_sound ops s h0 hok

/-! ## Tag, Link — `[A-Za-z0-9-_/.]+` -/

def tagCodec : Codec Text := ⟨fmtTag, fun t => .ok (parseTag t), fun v => domTag v = true, Eq⟩
def linkCodec : Codec Text := ⟨fmtLink, fun t => .ok (parseLink t), fun v => domTag v = true, Eq⟩

theorem tag_parse_format (v : Text) : parseTag (fmtTag v) = v := rfl
theorem link_parse_format (v : Text) : parseLink (fmtLink v) = v := rfl

/-- TAG lexes `#v` back when `rest` is empty or starts with a character outside `[A-Za-z0-9-_/.]`. -/
theorem tag_lex_format (v rest : Text) (h : domTag v = true) (hr : Stops isTagChar rest) :
    lexTag (fmtTag v ++ rest) = some (fmtTag v, rest) := lexSigil_fmt '#' v rest h hr

theorem link_lex_format (v rest : Text) (h : domTag v = true) (hr : Stops isTagChar rest) :
    lexLink (fmtLink v ++ rest) = some (fmtLink v, rest) := lexSigil_fmt '^' v rest h hr

theorem tag_sound : tagCodec.Sound := ⟨fun _ => rfl, fun v _ => ⟨v, rfl, rfl⟩⟩
theorem link_sound : linkCodec.Sound := ⟨fun _ => rfl, fun v _ => ⟨v, rfl, rfl⟩⟩

theorem tag_setter_machine (ops : List (Op Text)) (s : Tok Text) (h0 : tagCodec.Consistent s)
    (hok : tagCodec.OpsOK s ops) : tagCodec.Consistent (ops.foldl tagCodec.step s) :=
  setter_machine tagCodec tag_sound ops s h0 hok

theorem link_setter_machine (ops : List (Op Text)) (s : Tok Text) (h0 : linkCodec.Consistent s)
    (hok : linkCodec.OpsOK s ops) : linkCodec.Consistent (ops.foldl linkCodec.step s) :=
  setter_machine linkCodec link_sound ops s h0 hok

/-! ## MetaKey — `[a-z][a-zA-Z0-9-_]+` -/

def keyCodec : Codec Text := ⟨fmtKey, fun t => .ok (parseKey t), fun v => domKey v = true, Eq⟩

theorem key_parse_format (v : Text) : parseKey (fmtKey v) = v := parseKey_fmtKey v

/-- META_KEY lexes `v:` back whatever follows (the colon ends the lexeme). -/
theorem key_lex_format (v rest : Text) (h : domKey v = true) : lexKey (fmtKey v ++ rest) = some (fmtKey v, rest) :=
  lexKey_fmtKey v rest h

theorem key_sound : keyCodec.Sound := ⟨fun _ => rfl, fun v _ => ⟨v, by simp [keyCodec, parseKey_fmtKey], rfl⟩⟩

theorem key_setter_machine (ops : List (Op Text)) (s : Tok Text) (h0 : keyCodec.Consistent s)
    (hok : keyCodec.OpsOK s ops) : keyCodec.Consistent (ops.foldl keyCodec.step s) :=
  setter_machine keyCodec key_sound ops s h0 hok

/-! ## Bool -/

def boolCodec : Codec Bool := ⟨fmtBool, parseBool, fun _ => True, Eq⟩

theorem bool_parse_format (b : Bool) : parseBool (fmtBool b) = .ok b := parseBool_fmtBool b
theorem bool_lex_format (b : Bool) (rest : Text) : lexBool (fmtBool b ++ rest) = some (fmtBool b, rest) :=
  lexBool_fmtBool b rest
/-- both BOOL lexemes are accepted -/
theorem bool_parse_total (s : Text) (h : lexBool s = some (s, [])) : ∃ b, parseBool s = .ok b := lexBool_parse s h

theorem bool_sound : boolCodec.Sound := ⟨fun _ => rfl, fun b _ => ⟨b, parseBool_fmtBool b, rfl⟩⟩

theorem bool_setter_machine (ops : List (Op Bool)) (s : Tok Bool) (h0 : boolCodec.Consistent s)
    (hok : boolCodec.OpsOK s ops) : boolCodec.Consistent (ops.foldl boolCodec.step s) :=
  setter_machine boolCodec bool_sound ops s h0 hok

/-! ## TransactionFlag — one of `*!&#?%PSTCURM` (`txn` is a lexeme meaning `*`) -/

def flagCodec : Codec Text := ⟨fmtFlag, fun t => .ok (parseFlag t), fun v => domFlag v = true, Eq⟩

theorem flag_parse_format (v : Text) (h : domFlag v = true) : parseFlag (fmtFlag v) = v := parseFlag_fmtFlag v h
theorem flag_lex_format (v rest : Text) (h : domFlag v = true) : lexFlag (fmtFlag v ++ rest) = some (fmtFlag v, rest) :=
  lexFlag_fmtFlag v rest h

theorem flag_sound : flagCodec.Sound :=
  ⟨fun _ => rfl, fun v h => ⟨v, by simp [flagCodec, parseFlag_fmtFlag v h], rfl⟩⟩

theorem flag_setter_machine (ops : List (Op Text)) (s : Tok Text) (h0 : flagCodec.Consistent s)
    (hok : flagCodec.OpsOK s ops) : flagCodec.Consistent (ops.foldl flagCodec.step s) :=
  setter_machine flagCodec flag_sound ops s h0 hok

/-! ## Date — every calendar date with 1 ≤ year ≤ 9999 -/

def dateCodec : Codec Date := ⟨fmtDate, parseDate, fun v => validDate v = true, Eq⟩

theorem date_parse_format (v : Date) (h : validDate v = true) : parseDate (fmtDate v) = .ok v := parseDate_fmtDate v h

/-- DATE lexes `YYYY-MM-DD` back whatever follows (4-digit year then `-`; month and day already have 2 digits). -/
theorem date_lex_format (v : Date) (rest : Text) : lexDate (fmtDate v ++ rest) = some (fmtDate v, rest) :=
  lexDate_fmtDate v rest

/-- A DATE lexeme is three numerals; `_parse_value` rejects it only if `datetime.date(y, m, d)` does ("whose meaning is a
valid value"). -/
theorem date_parse_total (s x r : Text) (h : lexDate s = some (x, r)) :
    ∃ a b c, splitSep x = [a, b, c] ∧
      parseDate x = if validDate ⟨toNat a, toNat b, toNat c⟩ then .ok ⟨toNat a, toNat b, toNat c⟩ else .error "ValueError" :=
  parseDate_of_lexDate s x r h

theorem date_sound : dateCodec.Sound := ⟨fun _ => rfl, fun v h => ⟨v, parseDate_fmtDate v h, rfl⟩⟩

theorem date_setter_machine (ops : List (Op Date)) (s : Tok Date) (h0 : dateCodec.Consistent s)
    (hok : dateCodec.OpsOK s ops) : dateCodec.Consistent (ops.foldl dateCodec.step s) :=
  setter_machine dateCodec date_sound ops s h0 hok

/-! ## Number — every finite non-negative decimal `(coeff, exp)`; equality is numeric -/

def numCodec : Codec Dec := ⟨fmtNum, parseNum, fun _ => True, Dec.eqv⟩

/-- `Decimal(format(v, 'f'))` is `v` with a positive exponent multiplied out (`plain v`), which is numerically equal to `v`
and identical to `v` when the exponent is ≤ 0. -/
theorem num_parse_format (v : Dec) : parseNum (fmtNum v) = .ok (plain v) ∧ Dec.eqv (plain v) v ∧ (v.exp ≤ 0 → plain v = v) :=
  ⟨parseNum_fmtNum v, eqv_plain v, plain_of_nonpos v⟩

/-- NUMBER lexes `format(v, 'f')` back when `rest` is empty or starts with a character other than a digit, `.` or `,`. -/
theorem num_lex_format (v : Dec) (rest : Text) (hr : Stops numCont rest) :
    lexNumber (fmtNum v ++ rest) = some (fmtNum v, rest) := lexNumber_fmtNum v rest hr

/-- Every NUMBER lexeme (thousands separators, trailing `.` included) is accepted by `_parse_value`. -/
theorem num_parse_total (s x r : Text) (h : lexNumber s = some (x, r)) : ∃ v, parseNum x = .ok v :=
  parseNum_of_lexNumber s x r h

theorem num_sound : numCodec.Sound :=
  ⟨fun v => by simp [numCodec, Dec.eqv], fun v _ => ⟨plain v, parseNum_fmtNum v, eqv_plain v⟩⟩

theorem num_setter_machine (ops : List (Op Dec)) (s : Tok Dec) (h0 : numCodec.Consistent s)
    (hok : numCodec.OpsOK s ops) : numCodec.Consistent (ops.foldl numCodec.step s) :=
  setter_machine numCodec num_sound ops s h0 hok

/-! ## Account, Currency — value = raw text; domain = the lexemes of the terminal -/

/-- (Superseded by `account_lex_format` below; kept.)  Only the `rest = []` case, which is the definition of the domain (`domAccount v` says `v` is an ACCOUNT lexeme);
`format` and `parse` are the identity.  MISSING: `lexAccount (v ++ rest) = some (v, rest)` for non-extending `rest`
(the terminal models are validated against `re` by the harness only). -/
theorem account_lex_format_partial (v : Text) (h : domAccount v = true) : lexAccount (v ++ []) = some (v, []) := by
  simpa [domAccount] using h

/-- (Superseded by `currency_lex_format` below; kept.)  As `account_lex_format_partial`, for CURRENCY (whose regex backtracks: the lexeme is the longest prefix of the body run
ending in `[A-Z0-9]`).  MISSING: non-empty `rest`. -/
theorem currency_lex_format_partial (v : Text) (h : domCurrency v = true) : lexCurrency (v ++ []) = some (v, []) := by
  simpa [domCurrency] using h

/-- ACCOUNT lexes an account `v` (any lexeme of the terminal) back out of `v ++ rest` for every `rest` that cannot extend
it: `rest` is empty, or starts with a character outside `[A-Za-z0-9-]|non-ASCII` which, if it is `:`, is not followed by a
name start `[A-Z0-9]|non-ASCII` (`StopAccount`, the exact condition — see the `example`s below for both ways of extending).
Supersedes `account_lex_format_partial`. -/
theorem account_lex_format (v rest : Text) (h : domAccount v = true) (hr : StopAccount rest) :
    lexAccount (v ++ rest) = some (v, rest) :=
  lexAccount_append v rest (by simpa [domAccount] using h) hr

/-- CURRENCY lexes a currency `v` (any lexeme of the terminal, both alternatives) back out of `v ++ rest` whenever the run
of body characters `[A-Z0-9'._-]` at the start of `rest` contains no `[A-Z0-9]` (`StopCurrency`): the greedy body takes the
run and backtracking returns to the end of `v`.  Supersedes `currency_lex_format_partial`. -/
theorem currency_lex_format (v rest : Text) (h : domCurrency v = true) (hr : StopCurrency rest) :
    lexCurrency (v ++ rest) = some (v, rest) :=
  lexCurrency_append v rest (by simpa [domCurrency] using h) hr

/-- The usual case: the first character of `rest` is not in `[A-Z0-9'._-]`. -/
theorem currency_lex_format_stops (v rest : Text) (h : domCurrency v = true) (hr : Stops isCurBody rest) :
    lexCurrency (v ++ rest) = some (v, rest) :=
  currency_lex_format v rest h (StopCurrency.of_stops hr)

/-! ## non-vacuity: the hypotheses hold on concrete, non-trivial inputs and the functions compute -/

-- a string with a quote, a backslash, a newline and a backslash-n; followed by more text
example : lexStr (fmtStr ['a', '"', '\\', '\n', '\\', 'n'] ++ ['"', 'x']) = some (fmtStr ['a', '"', '\\', '\n', '\\', 'n'], ['"', 'x']) := by decide
example : fmtStr ['a', '"', '\\'] = ['"', 'a', '\\', '"', '\\', '\\', '"'] := by decide
example : parseStr ['"', '\\', 'n', '\\', '\n', '\\', 'x', '"'] = ['\n', '\\', '\n', 'x'] := by decide
-- a three-line CRLF comment in the domain, indented, followed by a blank line
example : domBCValue ['a', '\r', '\r', '\n', '\n', ' ', 'b'] = true := by decide
example : domBCValue ['a', '\r', 'b'] = false := by decide
example : fmtBC [' '] ['a', '\r', '\n', '\n', ' ', 'b'] = [' ', ';', ' ', 'a', '\r', '\n', ' ', ';', '\n', ' ', ';', ' ', ' ', 'b'] := by decide
example : Stops notEol ['\n', '\n', 'x'] ∧ StopBC true ['\n', '\n', 'x'] :=
  ⟨Or.inr ⟨_, _, rfl, by decide⟩, Or.inr ⟨['\n'], ['\n', 'x'], by decide, by decide⟩⟩
example : lexBC ([' ', ';', ' ', 'a', '\n', ' ', ';', 'b', '\n', ';', 'c']) = some ([' ', ';', ' ', 'a', '\n', ' ', ';', 'b'], ['\n', ';', 'c']) := by decide
example : parseBC [';', 'a', '\n', 'x'] = .error "ValueError" := by rfl
-- a machine run with a rejected raw-text assignment in the middle
example : bcCodec.OpsOK ⟨[';'], ([], [])⟩ [.update (fun iv => (iv.1, ['a', '\n'])), .setRawText ['x'], .update (fun iv => ([' '], iv.2))] := by
  simp [Codec.OpsOK, Codec.step, bcCodec, parseBC, splitLines, splitSemi]
example : bcCodec.Consistent ⟨[';'], ([], [])⟩ := ⟨_, by rfl, rfl⟩
example : domIC ['a', ' ', ';'] = true ∧ domIC [' ', 'a'] = false := by decide
example : domTag ['a', '-', '/', '.'] = true ∧ domKey ['a', 'B'] = true ∧ domKey ['a'] = false ∧ domFlag ['#'] = true := by decide
example : validDate ⟨4, 2, 29⟩ = true ∧ validDate ⟨1900, 2, 29⟩ = false ∧ fmtDate ⟨4, 2, 29⟩ = ['0', '0', '0', '4', '-', '0', '2', '-', '2', '9'] := by decide
example : lexDate ['2', '0', '0', '0', '-', '1', '3', '-', '0', '1'] = some (['2', '0', '0', '0', '-', '1', '3', '-', '0', '1'], []) ∧
    parseDate ['2', '0', '0', '0', '-', '1', '3', '-', '0', '1'] = .error "ValueError" := ⟨by decide, by rfl⟩
example : fmtNum ⟨15, -3⟩ = ['0', '.', '0', '1', '5'] ∧ fmtNum ⟨15, 2⟩ = ['1', '5', '0', '0'] ∧ fmtNum ⟨0, 2⟩ = ['0'] := by decide
example : lexNumber ['1', ',', '2', '3', '4', '.', '5', 'x'] = some (['1', ',', '2', '3', '4', '.', '5'], ['x']) ∧
    parseNum ['1', ',', '2', '3', '4', '.', '5'] = .ok ⟨12345, -1⟩ := ⟨by decide, by rfl⟩
example : Stops numCont [' ', '1'] := Or.inr ⟨_, _, rfl, by decide⟩
example : domAccount ['A', ':', 'B'] = true ∧ domCurrency ['U', 'S', 'D'] = true := by decide

-- ACCOUNT / CURRENCY followed by text: stop conditions hold on `:x`, ` 1`, `-.'` and fail exactly where the lexeme grows
example : StopAccount [':', 'x', 'Y'] ∧ StopAccount [' ', 'B'] ∧ StopAccount [':'] :=
  ⟨Or.inr ⟨_, _, rfl, by decide, fun _ => Or.inr ⟨_, _, rfl, by decide⟩⟩, Or.inr ⟨_, _, rfl, by decide, fun h => absurd h (by decide)⟩,
   Or.inr ⟨_, _, rfl, by decide, fun _ => Or.inl rfl⟩⟩
example : lexAccount (['A', ':', 'B', 'c'] ++ [':', 'x']) = some (['A', ':', 'B', 'c'], [':', 'x']) := by decide
example : lexAccount (['A', ':', 'B'] ++ [':', '9']) = some (['A', ':', 'B', ':', '9'], []) ∧
    lexAccount (['A', ':', 'B'] ++ ['-']) = some (['A', ':', 'B', '-'], []) := by decide
example : StopCurrency ['-', '.', '\'', ' ', 'X'] ∧ StopCurrency [' ', 'X'] ∧ ¬ StopCurrency ['-', 'X'] := by
  decide
example : domCurrency ['/', 'N', 'Q', '2'] = true ∧
    lexCurrency (['/', 'N', 'Q', '2'] ++ ['-', '.', ' ']) = some (['/', 'N', 'Q', '2'], ['-', '.', ' ']) ∧
    lexCurrency (['U', 'S', 'D'] ++ ['-', 'X']) = some (['U', 'S', 'D', '-', 'X'], []) := by decide

end Autobean.C12
