import Autobean.Proofs.Ownership
import Autobean.Proofs.AutoClaim
/-
C14 — every block comment has at most one owner, chosen by the documented rules.

Model: `Autobean.Comments` (token-list transcription of `_claim_comment`, `_CommentClaimer`, `unclaim_*`).  A
document is its store plus the filled ownership slots: `leading n`, `trailing n` (node `n`) and `item r k` (entry `k`
of repeated field `r`).  `owned d` lists the comment ids held by slots, with multiplicity; `owners d` lists
(slot, comment id).

`OwnInv d` :=  token ids are distinct, a leading/trailing slot has one content, no comment id is held twice
(`(owned d).Nodup`), and for every block comment of the store `claimed = true ↔ its id is held by a slot`.

The theorems of the first part quantify over ALL documents and ALL call sequences with ALL arguments.
What is NOT proved here and is evaluated on the real code instead (exhaustive small layouts, `harness/props/c14.py`):
that default parsing leaves no comment unowned, that attribution at parse time equals attribution later, and that the
documented order (leading of the model below, else trailing of the model above, else standalone) is followed.
-/
namespace Autobean.C14
open Autobean.Comments

/-- `owners` and `owned` list the same comment ids in the same order. -/
theorem owners_snd (d : Doc) : (owners d).map (·.2) = owned d := by
  have hitem : ∀ (r k : Nat) (items : List Item), (itemOwners r k items).map (·.2) = itemCommentIds items := by
    intro r k items
    induction items generalizing k with
    | nil => rfl
    | cons it its ih =>
      simp only [itemOwners, List.map_append, ih, itemCommentIds_cons]
      split <;> simp
  simp only [owners, owned, List.map_append, List.map_map, List.map_flatMap]
  congr 1
  induction d.reps with
  | nil => rfl
  | cons p rest ih => simp only [List.flatMap_cons, hitem]

/-- `own_inv`, uniqueness half: under the invariant no two filled slots hold the same comment. -/
theorem own_unique {d : Doc} (hi : OwnInv d) : (owners d).Pairwise (fun a b => a.2 ≠ b.2) := by
  have := hi.uniq
  rw [← owners_snd, List.Nodup, List.pairwise_map] at this
  exact this

/-- `own_inv`, flag half: under the invariant the `claimed` flag of a block comment says whether a slot holds it. -/
theorem own_flag {d : Doc} (hi : OwnInv d) {t : Tk} (ht : t ∈ d.store) (hk : t.kind = .blockComment) :
    t.claimed = true ↔ ∃ o, (o, t.id) ∈ owners d := by
  rw [hi.flags t ht hk, ← owners_snd, List.mem_map]
  constructor
  · rintro ⟨⟨o, c⟩, hm, rfl⟩; exact ⟨o, hm⟩
  · rintro ⟨o, hm⟩; exact ⟨(o, t.id), hm, rfl⟩

/-- `own_inv` for `claim_leading_comment` / `claim_trailing_comment` (with or without `ignore_if_already_claimed`):
the invariant is preserved; a refused call (`"claimed"`) has no result state at all. -/
theorem own_inv_claim {n start : Nat} {ig : Bool} {d d' : Doc} {r : Option Nat} (hi : OwnInv d) :
    (claimLeading n start ig d = .ok (d', r) → OwnInv d') ∧ (claimTrailing n start ig d = .ok (d', r) → OwnInv d') :=
  ⟨hi.claimLeading, hi.claimTrailing⟩

/-- A successful `_claim_comment` returns a comment that was NOT claimed before (an already claimed one is refused
or ignored), flags exactly that comment and otherwise only permutes the store. -/
theorem claim_only_unclaimed {bw ig : Bool} {start : Nat} {s s' : Store} {c : Nat} (hn : IdsNodup s)
    (h : claimComment bw ig start s = .ok (s', some c)) :
    s'.Perm (setFlags [c] true s) ∧ ∃ ct ∈ s, ct.id = c ∧ ct.kind = .blockComment ∧ ct.claimed = false :=
  claimComment_some_spec hn h

/-- `own_inv` for `unclaim_leading_comment` / `unclaim_trailing_comment`: flag and slot are cleared together. -/
theorem own_inv_unclaim (n : Nat) {d : Doc} (hi : OwnInv d) :
    OwnInv (unclaimLeading n d).1 ∧ OwnInv (unclaimTrailing n d).1 :=
  ⟨hi.unclaimLeading n, hi.unclaimTrailing n⟩

/-- `own_inv` for `claim_interleaving_comments` (any comment set) and `unclaim_interleaving_comments`. -/
theorem own_inv_interleaving {r ph mf ml : Nat} {set : Option (List Nat)} {d d' : Doc} {cs : List Nat} (hi : OwnInv d) :
    (claimInter r ph mf ml set d = .ok (d', cs) → OwnInv d') ∧ (unclaimInter r set d = .ok (d', cs) → OwnInv d') :=
  ⟨hi.claimInter, hi.unclaimInter⟩

/-- `own_inv`: every attribution call (claim / unclaim of leading, trailing and interleaving comments, refused or
not) preserves the ownership invariant. -/
theorem own_inv {d : Doc} (hi : OwnInv d) (c : Call) : OwnInv (runCall d c) := hi.runCall c

/-- `own_inv` along any sequence of calls — in particular `auto_claim_comments`, at parse time or later. -/
theorem own_inv_auto {d : Doc} (hi : OwnInv d) (calls : List Call) : OwnInv (autoClaim d calls) := hi.autoClaim calls

/-- `claim_stops_at_claimed`: `_find_outer` only ever yields unclaimed block comments, as a subsequence of its walk. -/
theorem claim_stops_at_claimed (inSet : Nat → Bool) (limit prev : Nat) (w : List Tk) :
    (findOuter inSet limit prev w).Sublist w ∧
    ∀ t ∈ findOuter inSet limit prev w, t.kind = .blockComment ∧ t.claimed = false :=
  findOuter_spec inSet limit prev w

/-- `claim_stops_at_claimed`, second half: nothing at or beyond a claimed comment is yielded. -/
theorem claim_stops_before_claimed {inSet : Nat → Bool} {limit : Nat} {c : Tk} (hk : c.kind = .blockComment)
    (htx : c.text ≠ []) (hcl : c.claimed = true) (a b : List Tk) (prev : Nat) :
    (findOuter inSet limit prev (a ++ c :: b)).Sublist a :=
  findOuter_stops hk htx hcl a b prev

/-- What `claim_interleaving_comments` claims: a duplicate-free list of comments that were unclaimed tokens of the
store; the field's comment entries afterwards are the old ones plus exactly these; all of them (and nothing else)
get the flag. -/
theorem interleaving_claims_only_unclaimed {ph : Nat} {items : List Item} {mf ml : Nat} {set : Option (List Nat)}
    {s : Store} {o : InterOut} (hn : IdsNodup s) (h : claimInterleaving ph items mf ml set s = .ok o) :
    ∃ new : List Tk,
      o.store.Perm (setFlags (itemCommentIds o.items) true s) ∧
      o.comments = itemCommentIds o.items ∧
      (itemCommentIds o.items).Perm (new.map (·.id) ++ itemCommentIds items) ∧
      (new.map (·.id)).Nodup ∧
      ∀ t ∈ new, t ∈ s ∧ t.kind = .blockComment ∧ t.claimed = false :=
  claimInterleaving_spec hn h

/-- `unclaim_claim_restores` (leading comment; layout unchanged = comment, newline, first token of the node, with
placeholders anywhere in between): `unclaim_leading_comment()` followed by `claim_leading_comment()` returns the same
comment, refills the same slot, leaves every other slot alone, and restores every non-placeholder token with its
flag in its place; only placeholders may sit elsewhere, so the visible text is equal. -/
theorem unclaim_claim_restores {d : Doc} {n c : Nat} {A P2 P1 B : List Tk} {ct nl st : Tk} (ig : Bool)
    (hi : OwnInv d) (hslot : lookup n d.leading = some c)
    (hlay : d.store = A ++ ct :: (P2 ++ nl :: (P1 ++ st :: B)))
    (hid : ct.id = c) (hk : ct.kind = .blockComment) (hnl : nl.kind = .newline)
    (hP1 : ∀ t ∈ P1, isPh t = true) (hP2 : ∀ t ∈ P2, isPh t = true) :
    ∃ d2, claimLeading n st.id ig (unclaimLeading n d).1 = .ok (d2, some c) ∧
      (∀ m, lookup m d2.leading = lookup m d.leading) ∧ d2.trailing = d.trailing ∧ d2.reps = d.reps ∧
      (owned d2).Perm (owned d) ∧
      d2.store.filter (fun t => !isPh t) = d.store.filter (fun t => !isPh t) ∧
      d2.store.Perm d.store := by
  obtain ⟨d2, h1, h2, h3, h4, h5, h6⟩ := unclaimLeading_claimLeading ig hi hslot hlay hid hk hnl hP1 hP2
  refine ⟨d2, h1, ?_, h4, h5, ?_, ?_, ?_⟩
  · intro m
    by_cases hm : m = n
    · rw [hm, h2, hslot]
    · exact h3 m hm
  · -- the slot content is what it was
    have hun : (unclaimLeading n d).1.leading = eraseKey n d.leading := by
      unfold unclaimLeading; simp [hslot]
    have hd2 : d2.leading = (n, c) :: eraseKey n d.leading := by
      unfold claimLeading at h1
      rw [hun] at h1
      simp only [lookup_eraseKey_self hi.lkeys] at h1
      split at h1
      · cases h1
      · cases h1
      · rename_i s c' _
        cases h1
        simp
    have hp := lookup_perm hslot
    simp only [owned, hd2, h4, h5, List.map_cons]
    rw [List.perm_iff_count] at hp ⊢
    intro z; have := hp z
    simp only [List.count_append, List.count_cons] at this ⊢; omega
  · have f1 := filter_nonPh_of_allPh hP1
    have f2 := filter_nonPh_of_allPh hP2
    rw [h6, hlay]
    simp [List.filter_append, List.filter_cons, f1, f2]
  · rw [h6, hlay]
    rw [List.perm_iff_count]
    intro z
    simp only [List.count_append, List.count_cons]; omega

/-- `auto_idempotent_partial`: once every block comment of the store is claimed, any further `auto_claim_comments`
(any sequence of `ignore_if_already_claimed=True` claims and universe interleaving claims, with any arguments)
changes nothing at all: same store (order and flags), same slots.
Partial: that the FIRST run on a `File` leaves every comment claimed depends on the tree walk and is evaluated on the
real code (`C14:unowned-after-default-parse`, `C14:not-idempotent`), not proved here. -/
theorem auto_idempotent_partial {d : Doc} (ha : AllClaimed d.store) {calls : List Call}
    (hc : ∀ c ∈ calls, c.isAuto = true) : autoClaim d calls = d :=
  autoClaim_fixed ha hc

/-! ### Non-vacuity -/

/-- `aa: 1` (node 1: tokens 1..2), the placeholder of the empty postings field, newline, `  ; c`, dedent mark. -/
def exStore : Store :=
  [⟨1, .other, "aa:".toList, false⟩, ⟨2, .mark, [], false⟩, ⟨3, .placeholder, [], false⟩,
   ⟨4, .newline, "\n".toList, false⟩, ⟨5, .blockComment, "  ; c".toList, false⟩, ⟨6, .mark, [], false⟩]

def exDoc : Doc := { store := exStore, leading := [], trailing := [], reps := [(7, [])] }

/-- The invariant holds on the concrete document (nothing owned, nothing flagged). -/
theorem exDoc_inv : OwnInv exDoc := by
  refine ⟨by unfold IdsNodup; decide, by decide, by decide, by decide, ?_⟩
  intro t ht hk
  simp [exDoc, exStore] at ht
  rcases ht with rfl | rfl | rfl | rfl | rfl | rfl <;> simp_all [owned, exDoc, itemCommentIds]

/-- A comment directly below a meta line with a placeholder in between: the trailing claim of node 1 (last token 2)
takes comment 5, moves placeholder 3 behind it, and the slot is filled. -/
example : (claimTrailing 1 2 false exDoc).toOption.map (fun p => (p.1.store.map (fun t => (t.id, t.claimed)), owners p.1, p.2)) =
    some ([(1, false), (2, false), (4, false), (5, true), (3, false), (6, false)], [(Owner.trailing 1, 5)], some 5) := by
  decide

/-- … and the invariant holds afterwards by `own_inv`. -/
example : OwnInv (runCall exDoc (.claimTrailing 1 2 false)) := own_inv exDoc_inv _

/-- A second claimant is refused (`ValueError('Comment already claimed.')`) or ignored. -/
example : (claimTrailing 9 2 false (runCall exDoc (.claimTrailing 1 2 false))).toOption.isNone = true := by decide
example : ((claimTrailing 9 2 true (runCall exDoc (.claimTrailing 1 2 false))).toOption.map (·.2)) = some none := by decide

/-- A comment before a dedent: from the dedent mark (last token of the enclosing directive) nothing is claimable
(the walk meets the end of the store), while the interleaving claim of the postings field (placeholder 3, enclosing
model 0..6) takes the comment as a standalone entry. -/
example : ((claimTrailing 8 6 true exDoc).toOption.map (·.2)) = some none := by decide
example : (claimInter 7 3 1 6 none exDoc).toOption.map (fun p => (owners p.1, p.2)) =
    some ([(Owner.item 7 0, 5)], [5]) := by decide

/-- `unclaim_claim_restores` instantiated: posting (node 1, first token 6) with leading comment 3. -/
def exDoc2 : Doc :=
  { store := [⟨1, .mark, [], false⟩, ⟨2, .newline, "\n".toList, false⟩, ⟨3, .blockComment, "  ; c".toList, true⟩,
              ⟨4, .placeholder, [], false⟩, ⟨5, .newline, "\n".toList, false⟩, ⟨6, .other, "  ".toList, false⟩],
    leading := [(1, 3)], trailing := [], reps := [] }

example : (claimLeading 1 6 false (unclaimLeading 1 exDoc2).1).toOption.map
      (fun p => (p.1.store.map (fun t => (t.id, t.claimed)), p.1.leading, p.2)) =
    some ([(1, false), (2, false), (4, false), (3, true), (5, false), (6, false)], [(1, 3)], some 3) := by decide

/-- `_find_outer` walks over newline and zero-width tokens, yields the unclaimed comment 2 and stops at the claimed
comment 4: comment 6 behind it is not reached. -/
example : (findOuter (fun _ => true) 99 0
    [⟨1, .newline, "\n".toList, false⟩, ⟨2, .blockComment, ";a".toList, false⟩, ⟨3, .mark, [], false⟩,
     ⟨4, .blockComment, ";b".toList, true⟩, ⟨5, .newline, "\n".toList, false⟩, ⟨6, .blockComment, ";c".toList, false⟩]).map (·.id)
    = [2] := by decide

/-! ### The tree walk of `auto_claim_comments` (`Model/AutoClaim.lean`)

`autoClaimWalk d n` = `n.auto_claim_comments()` on document `d`: self leading, self trailing (both with
`ignore_if_already_claimed=True`), then the public fields last to first; a repeated field = its entries last to first,
then (if it is a `…_with_comments` field) `claim_interleaving_comments()` without argument.  `first_token` /
`last_token` are read from the current slots at the moment of each call.  The tree `n` is static; everything the walk
changes is in `d` (so "the same tree with the updated slots" is `n` with the resulting document). -/

/-- `walk_own_inv`: the whole walk keeps the ownership invariant (by `own_inv` per call, induction over the tree). -/
theorem walk_own_inv {d d' : Doc} {n : CNode} (hi : OwnInv d) (h : autoClaimWalk d n = .ok d') : OwnInv d' :=
  autoClaimWalk_inv stepInv_ownInv hi h

/-- `walk_visible` (the C04 side): the walk only moves placeholders and sets flags - same non-placeholder tokens in the
same order, the store is a permutation; hence (placeholders being empty) the same visible tokens and the same text. -/
theorem walk_visible {d d' : Doc} {n : CNode} (h : autoClaimWalk d n = .ok d') :
    OnlyPhMoved d'.store d.store ∧
    (PhEmpty d.store → (d'.store.filter visible).map Tk.key = (d.store.filter visible).map Tk.key ∧
      textOf d'.store = textOf d.store) := by
  have hm : OnlyPhMoved d'.store d.store :=
    autoClaimWalk_inv (P := fun x => OnlyPhMoved x.store d.store) (stepInv_moved d.store) (OnlyPhMoved.refl _) h
  exact ⟨hm, fun hp => ⟨hm.visible hp, hm.text hp⟩⟩

/-- Every call the walk issues is one of those `auto_idempotent_partial` speaks about: a self-claim with
`ignore_if_already_claimed=True` or an interleaving claim without a comment set. -/
theorem walk_calls_auto {d : Doc} {n : CNode} {cs : List Call} (h : autoClaimCalls d n = .ok cs) :
    ∀ c ∈ cs, c.isAuto = true := by
  unfold autoClaimCalls at h
  cases hw : walkNode d n with
  | error e => simp [hw] at h
  | ok p =>
    obtain ⟨d1, cs1⟩ := p
    simp only [hw] at h
    cases h
    exact walkNode_calls n hw

/-- Once every block comment of the store is claimed, a walk over ANY tree changes nothing an observer can see: same
store (order and flags), same leading/trailing slots, same entries of every repeated field (`Doc.obs` = the document
without the cached spans of model entries). -/
theorem walk_fixed_when_all_claimed {d d' : Doc} {n : CNode} (ha : AllClaimed d.store)
    (h : autoClaimWalk d n = .ok d') : d'.obs = d.obs :=
  autoClaimWalk_inv (P := fun x => x.obs = d.obs) (stepInv_fixed ha) rfl h

/-- `walk_all_claimed_partial` ("default parsing leaves no comment unowned", File level): for a `File` root (one
repeated field with interleaving comments, first/last token = the ends of the store), after the walk EVERY block
comment of the store is claimed, because the final `claim_interleaving_comments()` of the File takes every still
unclaimed comment between its placeholder and the end of the store.
Hypothesis `fileLayoutOk d r ph items` (decidable; evaluated by the driver on every explored document and, independently,
by the harness on the real objects right before the File's final claim), on the state `d1` reached after the directives'
own walks: the File's placeholder is the first token of the store; the directives (with their leading/trailing comments
at that moment) are laid out in order behind it; every block comment INSIDE a directive's span is claimed; behind the
last directive there are only newlines, blanks, zero-width tokens and unclaimed block comments.
Partial: that the directives' own walks leave no unclaimed comment inside a directive (the same argument one and two
levels down, for the meta / postings fields) is part of the hypothesis, not proved. -/
theorem walk_all_claimed_partial {d d' : Doc} {r ph : Nat} {items : CNodes} (hn : IdsNodup d.store)
    (hlay : fileLayoutOk d r ph items = true) (h : autoClaimWalk d (fileRoot r ph items) = .ok d') :
    AllClaimed d'.store := by
  unfold fileLayoutOk at hlay
  unfold autoClaimWalk fileRoot at h
  rw [walkNode, walkFieldsRev, walkFieldsRev] at h
  simp only [walkField, if_true] at h
  cases h1 : walkNodesRev d items with
  | error e => simp [h1] at hlay
  | ok p1 =>
    obtain ⟨d1, c1⟩ := p1
    simp only [h1] at hlay h
    have hn1 : IdsNodup d1.store :=
      (walkNodesRev_inv (P := fun x => OnlyPhMoved x.store d.store) (stepInv_moved d.store) items
        (OnlyPhMoved.refl _) h1).idsNodup hn
    unfold walkInter at h
    cases hr : refreshItems d1 items.toList (repItems r d1.reps) with
    | error e => simp [hr] at hlay
    | ok its =>
      cases hs : d1.store with
      | nil => simp [hr, hs] at hlay
      | cons p post =>
        simp only [hr, hs, Bool.and_eq_true, decide_eq_true_eq] at hlay
        obtain ⟨⟨hp, hpk⟩, hc⟩ := hlay
        simp only [hr] at h
        cases hl : (p :: post).getLast? with
        | none => simp at hl
        | some lt =>
          have hs2 : ({ d1 with reps := setRep r its d1.reps } : Doc).store = p :: post := hs
          have hl2 : ({ d1 with reps := setRep r its d1.reps } : Doc).store.getLast? = some lt := by rw [hs2]; exact hl
          rw [firstTok_file _ hs2, lastTok_file _ hl2] at h
          simp only at h
          cases hci : claimInter r ph p.id lt.id none { d1 with reps := setRep r its d1.reps } with
          | error e => simp [hci] at h
          | ok q =>
            obtain ⟨d3, cs3⟩ := q
            simp only [hci] at h
            cases h
            unfold claimInter at hci
            simp only [repItems_setRep] at hci
            rw [hs] at hci
            cases hint : claimInterleaving ph its p.id lt.id none (p :: post) with
            | error e => simp [hint] at hci
            | ok o =>
              simp only [hint] at hci
              cases hci
              exact claimInterleaving_cover (hs ▸ hn1) hp hpk (by simp [hl]) hc hint

/-- `walk_idempotent_partial`: for a `File` root under the layout hypothesis of `walk_all_claimed_partial`, a second
`auto_claim_comments()` claims nothing and moves nothing: same store (order and flags), same slots, same entries.
General statement (not proved): `autoClaimWalk d n = .ok d' → autoClaimWalk d' n = .ok d'` for every tree under the
structural invariant of DESIGN §3 - after a run every comment adjacent to a node boundary or inside a comment-bearing
repeated region is claimed, so every later claim attempt finds no adjacent comment or a claimed one.
Partial in two ways: (1) "everything is claimed after the first run" comes from `walk_all_claimed_partial` (File root,
layout hypothesis); (2) that the second run is not REFUSED by the model (`"bad-span"`, `"not-in-store"`: the entries'
spans are still laid out in order after placeholders moved) is the hypothesis `h2`; the driver reports it for every
explored document (`again=same`). -/
theorem walk_idempotent_partial {d d' d'' : Doc} {r ph : Nat} {items : CNodes} (hn : IdsNodup d.store)
    (hlay : fileLayoutOk d r ph items = true) (h1 : autoClaimWalk d (fileRoot r ph items) = .ok d')
    (h2 : autoClaimWalk d' (fileRoot r ph items) = .ok d'') : d''.obs = d'.obs :=
  walk_fixed_when_all_claimed (walk_all_claimed_partial hn hlay h1) h2

/-- `walk_keeps_owner`: the walk never takes a comment away from its owner - a filled leading slot, a filled trailing
slot and a comment entry of a repeated field are still there, with the same comment, afterwards. -/
theorem walk_keeps_owner {d d' : Doc} {n : CNode} (h : autoClaimWalk d n = .ok d') :
    (∀ m c, lookup m d.leading = some c → lookup m d'.leading = some c) ∧
    (∀ m c, lookup m d.trailing = some c → lookup m d'.trailing = some c) ∧
    (∀ r c, c ∈ itemCommentIds (repItems r d.reps) → c ∈ itemCommentIds (repItems r d'.reps)) :=
  ⟨fun m c hm => autoClaimWalk_inv (stepInv_leadingKept m c) hm h,
   fun m c hm => autoClaimWalk_inv (stepInv_trailingKept m c) hm h,
   fun r c hm => autoClaimWalk_inv (stepInv_entryKept r c) hm h⟩

/-- `walk_entries_last_to_first`: the entries of a repeated field walk last to first - the model BELOW before the model
ABOVE it (then, for a field with comments, the interleaving claim). -/
theorem walk_entries_last_to_first {d d' : Doc} {a b : CNode} {ns : CNodes} {cs : List Call}
    (h : walkNodesRev d (.cons a (.cons b ns)) = .ok (d', cs)) :
    ∃ x y c1 c2 c3, walkNodesRev d ns = .ok (x, c1) ∧ walkNode x b = .ok (y, c2) ∧ walkNode y a = .ok (d', c3) ∧
      cs = c1 ++ c2 ++ c3 := by
  rw [walkNodesRev, walkNodesRev] at h
  cases h1 : walkNodesRev d ns with
  | error e => simp [h1] at h
  | ok p1 =>
    obtain ⟨x, c1⟩ := p1
    simp only [h1] at h
    cases h2 : walkNode x b with
    | error e => simp [h2] at h
    | ok p2 =>
      obtain ⟨y, c2⟩ := p2
      simp only [h2] at h
      cases h3 : walkNode y a with
      | error e => simp [h3] at h
      | ok p3 =>
        obtain ⟨z, c3⟩ := p3
        simp only [h3] at h
        cases h
        exact ⟨x, y, c1, c2, c3, rfl, h2, h3, rfl⟩

/-- `walk_leading_of_model_below` (the documented order, first clause, and why it wins over the second): a model whose
first token stands directly below an unclaimed comment - one line break, placeholders anywhere in between - and which has
no leading comment yet takes that comment as its LEADING comment when it walks; the model above walks afterwards
(`walk_entries_last_to_first`) and cannot take it any more: the slot still holds it after that walk, and by the
invariant (`own_unique`) no other slot does. -/
theorem walk_leading_of_model_below {x y d' : Doc} {id : Nat} {fs : CFields} {above : CNode} {A P2 P1 B : List Tk}
    {c nl st : Tk} {c2 c3 : List Call}
    (hi : OwnInv x) (hslot : lookup id x.leading = none) (hfirst : firstOfFields x fs = some st.id)
    (hlay : x.store = A ++ c :: (P2 ++ nl :: (P1 ++ st :: B)))
    (hk : c.kind = .blockComment) (hcl : c.claimed = false) (hnl : nl.kind = .newline)
    (hP1 : ∀ t ∈ P1, isPh t = true) (hP2 : ∀ t ∈ P2, isPh t = true)
    (hb : walkNode x (.surround id fs) = .ok (y, c2)) (ha : walkNode y above = .ok (d', c3)) :
    lookup id y.leading = some c.id ∧ lookup id d'.leading = some c.id ∧ OwnInv d' := by
  have hy : lookup id y.leading = some c.id := by
    rw [walkNode] at hb
    cases h1 : walkSelf x id (.surround id fs) with
    | error e => simp [h1] at hb
    | ok p1 =>
      obtain ⟨x2, cs1⟩ := p1
      simp only [h1] at hb
      cases h2 : walkFieldsRev x2 (.surround id fs) fs with
      | error e => simp [h2] at hb
      | ok p2 =>
        obtain ⟨x3, cs2⟩ := p2
        simp only [h2] at hb
        cases hb
        have hf : firstTok x (.surround id fs) = some st.id := by simp [firstTok, hslot, hfirst]
        have := walkSelf_takes_leading hi.ids hslot hf hlay hk hcl hnl hP1 hP2 h1
        exact walkFieldsRev_inv (stepInv_leadingKept id c.id) fs this h2
  exact ⟨hy, walkNode_inv (stepInv_leadingKept id c.id) above hy ha,
    walkNode_inv stepInv_ownInv above (walkNode_inv stepInv_ownInv _ hi hb) ha⟩

/-- `walk_trailing_of_model_above` (the documented order, second clause): a model whose last token - read after its
leading claim, as the real chain does - stands directly above a comment that is STILL unclaimed when the model walks
(the model below has walked already and did not take it) and which has no trailing comment yet takes that comment as
its TRAILING comment, and keeps it to the end of the walk of any later tree. -/
theorem walk_trailing_of_model_above {x x1 y d' : Doc} {id f : Nat} {fs : CFields} {later : CNode} {r : Option Nat}
    {A P1 P2 B : List Tk} {c nl st : Tk} {c2 c3 : List Call}
    (hfirst : firstTok x (.surround id fs) = some f) (hlead : claimLeading id f true x = .ok (x1, r))
    (hn : IdsNodup x1.store) (hslot : lookup id x1.trailing = none) (hlast : lastTok x1 (.surround id fs) = some st.id)
    (hlay : x1.store = A ++ st :: (P1 ++ nl :: (P2 ++ c :: B)))
    (hk : c.kind = .blockComment) (hcl : c.claimed = false) (hnl : nl.kind = .newline)
    (hP1 : ∀ t ∈ P1, isPh t = true) (hP2 : ∀ t ∈ P2, isPh t = true)
    (hb : walkNode x (.surround id fs) = .ok (y, c2)) (ha : walkNode y later = .ok (d', c3)) :
    lookup id y.trailing = some c.id ∧ lookup id d'.trailing = some c.id := by
  have hy : lookup id y.trailing = some c.id := by
    rw [walkNode] at hb
    cases h1 : walkSelf x id (.surround id fs) with
    | error e => simp [h1] at hb
    | ok p1 =>
      obtain ⟨x2, cs1⟩ := p1
      simp only [h1] at hb
      cases h2 : walkFieldsRev x2 (.surround id fs) fs with
      | error e => simp [h2] at hb
      | ok p2 =>
        obtain ⟨x3, cs2⟩ := p2
        simp only [h2] at hb
        cases hb
        have := walkSelf_takes_trailing hfirst hlead hn hslot hlast hlay hk hcl hnl hP1 hP2 h1
        exact walkFieldsRev_inv (stepInv_trailingKept id c.id) fs this h2
  exact ⟨hy, walkNode_inv (stepInv_trailingKept id c.id) later hy ha⟩

/-! ### Non-vacuity of the walk theorems

```
; top
2000-01-01 *
  ; ind
  Assets:Foo
; trail

; alone
```
as the real parser lays it out (`auto_claim_comments=False`): token ids 1..24 in store order; 1 = placeholder of
`File._directives`, 7 / 9 / 10 = placeholders of the transaction's tags-links / meta / postings, 17 = placeholder of the
posting's meta, 8 / 16 = EOL marks, 18 = dedent mark. -/

def wkStore : Store :=
  [⟨1, .placeholder, [], false⟩, ⟨2, .blockComment, "; top".toList, false⟩, ⟨3, .newline, "\n".toList, false⟩,
   ⟨4, .other, "2000-01-01".toList, false⟩, ⟨5, .whitespace, " ".toList, false⟩, ⟨6, .other, "*".toList, false⟩,
   ⟨7, .placeholder, [], false⟩, ⟨8, .mark, [], false⟩, ⟨9, .placeholder, [], false⟩, ⟨10, .placeholder, [], false⟩,
   ⟨11, .newline, "\n".toList, false⟩, ⟨12, .blockComment, "  ; ind".toList, false⟩, ⟨13, .newline, "\n".toList, false⟩,
   ⟨14, .other, "  ".toList, false⟩, ⟨15, .other, "Assets:Foo".toList, false⟩, ⟨16, .mark, [], false⟩,
   ⟨17, .placeholder, [], false⟩, ⟨18, .mark, [], false⟩, ⟨19, .newline, "\n".toList, false⟩,
   ⟨20, .blockComment, "; trail".toList, false⟩, ⟨21, .newline, "\n".toList, false⟩, ⟨22, .newline, "\n".toList, false⟩,
   ⟨23, .blockComment, "; alone".toList, false⟩, ⟨24, .newline, "\n".toList, false⟩]

/-- the posting (node 28): indent, account, EOL, meta field (rep 29, placeholder 17, no entries) -/
def wkPosting : CNode :=
  .surround 28 (.cons (.plain (some (14, 14))) (.cons (.plain none) (.cons (.plain (some (15, 15)))
    (.cons (.plain (some (16, 16))) (.cons (.rep 29 17 true .nil) .nil)))))

/-- the transaction (node 25): date, flag, tags-links (rep 26, no comments), EOL, meta (rep 27), postings (rep 30),
dedent mark -/
def wkTxn : CNode :=
  .surround 25 (.cons (.plain (some (4, 4))) (.cons (.plain (some (6, 6))) (.cons (.rep 26 7 false .nil)
    (.cons (.plain (some (8, 8))) (.cons (.rep 27 9 true .nil) (.cons (.rep 30 10 true (.cons wkPosting .nil))
    (.cons (.plain (some (18, 18))) .nil)))))))

def wkFile : CNode := fileRoot 31 1 (.cons wkTxn .nil)

def wkDoc : Doc :=
  { store := wkStore, leading := [], trailing := [],
    reps := [(31, [⟨0, 0, false⟩]), (26, []), (27, []), (30, [⟨0, 0, false⟩]), (29, [])] }

/-- What the walk does: `; top` becomes the leading comment of the transaction, `; ind` the leading comment of the
posting, `; trail` the trailing comment of the transaction, `; alone` a standalone entry of the File; nothing moves. -/
example : (autoClaimWalk wkDoc wkFile).toOption.map (fun x => x.store.map (fun t => (t.id, t.claimed))) =
    some [(1, false), (2, true), (3, false), (4, false), (5, false), (6, false), (7, false), (8, false), (9, false),
          (10, false), (11, false), (12, true), (13, false), (14, false), (15, false), (16, false), (17, false),
          (18, false), (19, false), (20, true), (21, false), (22, false), (23, true), (24, false)] := by decide +kernel
example : (autoClaimWalk wkDoc wkFile).toOption.map (fun x => (x.leading, x.trailing)) =
    some ([(28, 12), (25, 2)], [(25, 20)]) := by decide +kernel
example : (autoClaimWalk wkDoc wkFile).toOption.map (fun x => x.reps.map (fun p => (p.1, itemKinds p.2))) =
    some [(31, [none, some 23]), (26, []), (27, []), (30, [none]), (29, [])] := by decide +kernel

/-- the calls, in the order the real code issues them (checked against the real trace by the harness) -/
example : (autoClaimCalls wkDoc wkFile).toOption.map (fun cs => cs.map fun c =>
      match c with
      | .claimLeading n st _ => [0, n, st]
      | .claimTrailing n st _ => [1, n, st]
      | .claimInter r ph mf ml _ => [2, r, ph, mf, ml]
      | _ => []) =
    some [[0, 25, 4], [1, 25, 18], [0, 28, 14], [1, 28, 17], [2, 29, 17, 12, 17], [2, 30, 10, 2, 20], [2, 27, 9, 2, 20],
          [2, 31, 1, 1, 24]] := by decide +kernel

theorem wkDoc_inv : OwnInv wkDoc := by
  refine ⟨by unfold IdsNodup; decide, by decide, by decide, by decide, ?_⟩
  intro t ht hk
  have : t.claimed = false ∧ owned wkDoc = [] := by
    refine ⟨?_, by decide⟩
    have hall : wkStore.all (fun t => !t.claimed) = true := by decide
    simpa using List.all_eq_true.mp hall t ht
  simp [this.1, this.2]

/-- the hypotheses of `walk_all_claimed_partial` / `walk_idempotent_partial` hold on the concrete document … -/
example : fileLayoutOk wkDoc 31 1 (.cons wkTxn .nil) = true := by decide +kernel

/-- … so the theorems apply to it: invariant kept, every comment claimed, second run without effect. -/
example : ∃ d', autoClaimWalk wkDoc wkFile = .ok d' ∧ OwnInv d' ∧ AllClaimed d'.store ∧
    ∃ d'', autoClaimWalk d' wkFile = .ok d'' ∧ d''.obs = d'.obs := by
  cases h : autoClaimWalk wkDoc wkFile with
  | error e =>
    have : (autoClaimWalk wkDoc wkFile).toOption.isSome = true := by decide +kernel
    simp [h, Except.toOption] at this
  | ok d' =>
    have hn : IdsNodup wkDoc.store := wkDoc_inv.ids
    have hlay : fileLayoutOk wkDoc 31 1 (.cons wkTxn .nil) = true := by decide +kernel
    have ha := walk_all_claimed_partial hn hlay h
    refine ⟨d', rfl, walk_own_inv wkDoc_inv h, ha, ?_⟩
    cases h2 : autoClaimWalk d' wkFile with
    | error e =>
      have : ((autoClaimWalk wkDoc wkFile).toOption.bind fun x => (autoClaimWalk x wkFile).toOption).isSome = true := by
        decide +kernel
      simp [h, h2, Except.toOption] at this
    | ok d'' => exact ⟨d'', rfl, walk_fixed_when_all_claimed ha h2⟩

/-- `walk_leading_of_model_below` instantiated: the posting (first token 14) stands directly below `; ind` (12, line break
13); it walks before the transaction above it does. -/
example : ∀ y d' c2 c3, walkNode wkDoc wkPosting = .ok (y, c2) → walkNode y wkTxn = .ok (d', c3) →
    lookup 28 d'.leading = some 12 := by
  intro y d' c2 c3 hb ha
  exact (walk_leading_of_model_below (A := wkStore.take 11) (P2 := []) (P1 := []) (B := wkStore.drop 14)
    (c := ⟨12, .blockComment, "  ; ind".toList, false⟩) (nl := ⟨13, .newline, "\n".toList, false⟩)
    (st := ⟨14, .other, "  ".toList, false⟩) wkDoc_inv (by decide) (by decide) (by decide) rfl rfl rfl
    (by simp) (by simp) hb ha).2.1

example : ((walkNode wkDoc wkPosting).toOption.bind fun p => (walkNode p.1 wkTxn).toOption).isSome = true := by
  decide +kernel

/-- `walk_trailing_of_model_above` instantiated: the transaction first claims `; top` as its leading comment (`wkX1`);
its last token is then the dedent mark 18, directly above `; trail` (20, line break 19), which nobody has claimed. -/
def wkX1 : Doc := { wkDoc with store := setFlags [2] true wkStore, leading := [(25, 2)] }

example : ∀ y d' c2 c3, walkNode wkDoc wkTxn = .ok (y, c2) → walkNode y (fileRoot 99 1 .nil) = .ok (d', c3) →
    lookup 25 d'.trailing = some 20 := by
  intro y d' c2 c3 hb ha
  have hx1 : IdsNodup wkX1.store := by
    have : wkX1.store.map (·.id) = wkStore.map (·.id) := setFlags_ids _ _ _
    unfold IdsNodup; rw [this]; decide
  have hlead : claimLeading 25 4 true wkDoc = .ok (wkX1, some 2) := by rfl
  exact (walk_trailing_of_model_above (x1 := wkX1) (A := wkX1.store.take 17) (P1 := []) (P2 := []) (B := wkX1.store.drop 20)
    (c := ⟨20, .blockComment, "; trail".toList, false⟩) (nl := ⟨19, .newline, "\n".toList, false⟩)
    (st := ⟨18, .mark, [], false⟩) (by decide) hlead hx1 (by decide) (by decide) (by decide) rfl rfl rfl
    (by simp) (by simp) hb ha).2

/-- A walk that MOVES a placeholder: `2000-01-01 *` / `  aa: 1` / `  ; c` / `  Assets:Foo` after the meta item had claimed
`; c` as its trailing comment (which spliced the placeholder 14 of the postings field behind the comment) and
unclaimed it again.  The posting now claims `; c` as its leading comment walking backwards over that placeholder,
which is spliced in front of the comment. -/
def wkStore2 : Store :=
  [⟨1, .placeholder, [], false⟩, ⟨2, .other, "2000-01-01".toList, false⟩, ⟨3, .whitespace, " ".toList, false⟩,
   ⟨4, .other, "*".toList, false⟩, ⟨5, .placeholder, [], false⟩, ⟨6, .mark, [], false⟩, ⟨7, .placeholder, [], false⟩,
   ⟨8, .newline, "\n".toList, false⟩, ⟨9, .other, "  ".toList, false⟩, ⟨10, .other, "aa:".toList, false⟩,
   ⟨11, .whitespace, " ".toList, false⟩, ⟨12, .other, "1".toList, false⟩, ⟨13, .mark, [], false⟩,
   ⟨15, .newline, "\n".toList, false⟩, ⟨16, .blockComment, "  ; c".toList, false⟩, ⟨14, .placeholder, [], false⟩,
   ⟨17, .newline, "\n".toList, false⟩, ⟨18, .other, "  ".toList, false⟩, ⟨19, .other, "Assets:Foo".toList, false⟩,
   ⟨20, .mark, [], false⟩, ⟨21, .placeholder, [], false⟩, ⟨22, .mark, [], false⟩, ⟨23, .newline, "\n".toList, false⟩]

def wkMeta2 : CNode :=
  .surround 26 (.cons (.plain (some (9, 9))) (.cons (.plain (some (10, 10))) (.cons (.plain (some (12, 12)))
    (.cons (.plain none) (.cons (.plain (some (13, 13))) .nil)))))

def wkPosting2 : CNode :=
  .surround 28 (.cons (.plain (some (18, 18))) (.cons (.plain (some (19, 19))) (.cons (.plain (some (20, 20)))
    (.cons (.rep 29 21 true .nil) .nil))))

def wkFile2 : CNode :=
  fileRoot 31 1 (.cons (.surround 24 (.cons (.plain (some (2, 2))) (.cons (.plain (some (4, 4)))
    (.cons (.rep 25 5 false .nil) (.cons (.plain (some (6, 6))) (.cons (.rep 27 7 true (.cons wkMeta2 .nil))
    (.cons (.rep 30 14 true (.cons wkPosting2 .nil)) (.cons (.plain (some (22, 22))) .nil)))))))) .nil)

def wkDoc2 : Doc :=
  { store := wkStore2, leading := [], trailing := [],
    reps := [(31, [⟨0, 0, false⟩]), (25, []), (27, [⟨0, 0, false⟩]), (30, [⟨0, 0, false⟩]), (29, [])] }

example : (autoClaimWalk wkDoc2 wkFile2).toOption.map (fun x => ((x.store.map (·.id)).drop 12, x.leading ++ x.trailing)) =
    some ([13, 15, 14, 16, 17, 18, 19, 20, 21, 22, 23], [(28, 16)]) := by decide +kernel

/-- … and by `walk_visible` the text is what it was. -/
example : ∀ d', autoClaimWalk wkDoc2 wkFile2 = .ok d' → textOf d'.store = textOf wkDoc2.store := by
  intro d' h
  refine ((walk_visible h).2 ?_).2
  intro t ht hp
  have hall : wkStore2.all (fun t => !isPh t || t.text.isEmpty) = true := by decide
  have := List.all_eq_true.mp hall t ht
  simpa [hp] using this

/-! ## Calls that name their comments (selections)

`claim_interleaving_comments(comments)` / `unclaim_interleaving_comments(comments)` with an explicit selection - the empty
one included - touch the ownership of those comments only. -/


/-- `_find_outer` yields only comments of the selection. -/
theorem findOuter_in_selection (inSet : Nat → Bool) (limit : Nat) (prev : Nat) (w : List Tk) :
    ∀ t ∈ findOuter inSet limit prev w, inSet t.id = true := by
  induction w generalizing prev with
  | nil => intro t h; simp [findOuter] at h
  | cons x xs ih =>
    intro t h
    unfold findOuter at h
    split at h
    · simp at h
    · split at h
      · exact ih _ t h
      · split at h
        · split at h
          · simp at h
          · rcases List.mem_append.mp h with h1 | h2
            · split at h1
              · simp at h1; subst h1; assumption
              · simp at h1
            · exact ih _ t h2
        · simp at h

/-- The comments a gap contributes are comments of the selection. -/
theorem gapComments_in_selection (inSet : Nat → Bool) (gap : List Tk) :
    ∀ t ∈ gapComments inSet gap, inSet t.id = true := by
  intro t h
  simp [gapComments] at h
  exact h.2.1.2

/-- **Selective release.** `unclaim_interleaving_comments(comments)` releases comments of the selection only … -/
theorem unclaim_within_selection {items : List Item} {l : List Nat} {s : Store} {o : UnclaimOut}
    (h : unclaimInterleaving items (some l) s = .ok o) : ∀ c ∈ o.comments, c ∈ l := by
  unfold unclaimInterleaving at h
  simp only at h
  split at h
  · simp at h
  · simp only [Except.ok.injEq] at h
    subst h
    intro c hc
    simp only [List.mem_map, List.mem_filter] at hc
    obtain ⟨it, ⟨_, hsel⟩, rfl⟩ := hc
    simp [unSel, inSetOf] at hsel
    exact hsel.2

/-- … and the empty selection releases nothing: no flag changes, no entry leaves the field. -/
theorem unclaim_empty_selection (items : List Item) (s : Store) :
    unclaimInterleaving items (some []) s = .ok { store := s, items := items, comments := [] } := by
  have hsel : ∀ it : Item, unSel (some []) it = false := by intro it; simp [unSel, inSetOf]
  simp [unclaimInterleaving, hsel, unRemaining, setFlags]


theorem findInner_new_in_selection (inSet : Nat → Bool) (items : List Item) :
    ∀ (cur : List Tk) (ys : List Item) (left : List Tk), findInner inSet cur items = .ok (ys, left) →
      ∀ y ∈ ys, y ∈ items ∨ inSet y.first = true := by
  induction items with
  | nil =>
    intro cur ys left h y hy
    simp [findInner] at h
    rw [h.1] at hy
    simp at hy
  | cons it its ih =>
    intro cur ys left h y hy
    unfold findInner at h
    simp only at h
    split at h
    · simp at h
    · rename_i a b after hs
      split at h
      · simp at h
      · rename_i ys' left' hrec
        simp only [Except.ok.injEq, Prod.mk.injEq] at h
        rw [← h.1] at hy
        rcases List.mem_append.mp hy with h1 | h2
        · right
          simp only [List.mem_map] at h1
          obtain ⟨t, ht, rfl⟩ := h1
          exact gapComments_in_selection inSet _ t ht
        · rcases List.mem_cons.mp h2 with rfl | h3
          · left; exact List.mem_cons_self
          · rcases ih _ _ _ hrec y h3 with h4 | h4
            · left; exact List.mem_cons_of_mem _ h4
            · right; exact h4

/-- **Selective claim.** Every entry of the field after `claim_interleaving_comments(comments)` is an entry it had
before or a comment of the selection: with the empty selection nothing is claimed. -/
theorem claim_within_selection {ph mf ml : Nat} {items : List Item} {l : List Nat} {s : Store} {o : InterOut}
    (h : claimInterleaving ph items mf ml (some l) s = .ok o) :
    ∀ it ∈ o.items, it ∈ items ∨ it.first ∈ l := by
  unfold claimInterleaving at h
  split at h
  · simp at h
  · rename_i sc hsc
    split at h
    · simp at h
    · split at h
      · simp at h
      · split at h
        · simp at h
        · simp only [Except.ok.injEq] at h
          subst h
          simp only
          unfold scanComments at hsc
          split at hsc
          · simp at hsc
          · rename_i pre x post hsp
            split at hsc
            · simp at hsc
            · rename_i inner left hin
              simp only [Except.ok.injEq] at hsc
              subst hsc
              intro it hit
              have key : ∀ i, inSetOf (some l) i = true → i ∈ l := by
                intro i hi; simpa [inSetOf] using hi
              simp only [List.mem_append, List.mem_map] at hit
              rcases hit with (⟨t, ht, rfl⟩ | h2) | ⟨t, ht, rfl⟩
              · right
                exact key _ (findOuter_in_selection _ _ _ _ t (by simpa using ht))
              · rcases findInner_new_in_selection _ _ _ _ _ hin it h2 with h3 | h3
                · left; exact h3
                · right; exact key _ h3
              · right
                exact key _ (findOuter_in_selection _ _ _ _ t ht)


/-! Non-vacuity: a selective release on a field with two comment entries and a model. -/
example : ∃ o, unclaimInterleaving [⟨5, 5, true⟩, ⟨7, 9, false⟩, ⟨11, 11, true⟩] (some [11]) [] = .ok o ∧ o.comments = [11] :=
  ⟨_, rfl, rfl⟩

end Autobean.C14
