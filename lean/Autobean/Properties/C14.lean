import Autobean.Proofs.Ownership
/-
C14 — every block comment has at most one owner, chosen by the documented rules.

Model: `Autobean.Comments` (token-list transcription of `_claim_comment`, `_CommentClaimer`, `unclaim_*`).  A
document is its store plus the filled ownership slots: `leading n`, `trailing n` (node `n`) and `item r k` (entry `k`
of repeated field `r`).  `owned d` lists the comment ids held by slots, with multiplicity; `owners d` lists
(slot, comment id).

`OwnInv d` :=  token ids are distinct, a leading/trailing slot has one content, no comment id is held twice
(`(owned d).Nodup`), and for every block comment of the store `claimed = true ↔ its id is held by a slot`.

The theorems quantify over ALL documents and ALL call sequences with ALL arguments (the tree that decides which
calls `auto_claim_comments` issues, with which first/last tokens, is not modelled: every possible choice is covered).
What is NOT proved here and is evaluated on the real code instead (exhaustive small layouts, `harness/props/c14.py`):
that default parsing leaves no comment unowned, that attribution at parse time equals attribution later, and that the
documented order (leading of the model below, else trailing of the model above, else standalone) is followed.
-/
namespace Autobean.C14
open Autobean.Comments

/-- `owners` and `owned` list the same comment ids in the same order. -/
theorem owners_snd (d : Doc) : (owners d).map (·.2) = owned d := by
  have hitem : ∀ (r k : Nat) (items : List Item), (itemOwners r k items).map (·.2) = itemCommentIds items := by
    intro r k items
    induction items generalizing k with
    | nil => rfl
    | cons it its ih =>
      simp only [itemOwners, List.map_append, ih, itemCommentIds_cons]
      split <;> simp
  simp only [owners, owned, List.map_append, List.map_map, List.map_flatMap]
  congr 1
  induction d.reps with
  | nil => rfl
  | cons p rest ih => simp only [List.flatMap_cons, hitem]

/-- `own_inv`, uniqueness half: under the invariant no two filled slots hold the same comment. -/
theorem own_unique {d : Doc} (hi : OwnInv d) : (owners d).Pairwise (fun a b => a.2 ≠ b.2) := by
  have := hi.uniq
  rw [← owners_snd, List.Nodup, List.pairwise_map] at this
  exact this

/-- `own_inv`, flag half: under the invariant the `claimed` flag of a block comment says whether a slot holds it. -/
theorem own_flag {d : Doc} (hi : OwnInv d) {t : Tk} (ht : t ∈ d.store) (hk : t.kind = .blockComment) :
    t.claimed = true ↔ ∃ o, (o, t.id) ∈ owners d := by
  rw [hi.flags t ht hk, ← owners_snd, List.mem_map]
  constructor
  · rintro ⟨⟨o, c⟩, hm, rfl⟩; exact ⟨o, hm⟩
  · rintro ⟨o, hm⟩; exact ⟨(o, t.id), hm, rfl⟩

/-- `own_inv` for `claim_leading_comment` / `claim_trailing_comment` (with or without `ignore_if_already_claimed`):
the invariant is preserved; a refused call (`"claimed"`) has no result state at all. -/
theorem own_inv_claim {n start : Nat} {ig : Bool} {d d' : Doc} {r : Option Nat} (hi : OwnInv d) :
    (claimLeading n start ig d = .ok (d', r) → OwnInv d') ∧ (claimTrailing n start ig d = .ok (d', r) → OwnInv d') :=
  ⟨hi.claimLeading, hi.claimTrailing⟩

/-- A successful `_claim_comment` returns a comment that was NOT claimed before (an already claimed one is refused
or ignored), flags exactly that comment and otherwise only permutes the store. -/
theorem claim_only_unclaimed {bw ig : Bool} {start : Nat} {s s' : Store} {c : Nat} (hn : IdsNodup s)
    (h : claimComment bw ig start s = .ok (s', some c)) :
    s'.Perm (setFlags [c] true s) ∧ ∃ ct ∈ s, ct.id = c ∧ ct.kind = .blockComment ∧ ct.claimed = false :=
  claimComment_some_spec hn h

/-- `own_inv` for `unclaim_leading_comment` / `unclaim_trailing_comment`: flag and slot are cleared together. -/
theorem own_inv_unclaim (n : Nat) {d : Doc} (hi : OwnInv d) :
    OwnInv (unclaimLeading n d).1 ∧ OwnInv (unclaimTrailing n d).1 :=
  ⟨hi.unclaimLeading n, hi.unclaimTrailing n⟩

/-- `own_inv` for `claim_interleaving_comments` (any comment set) and `unclaim_interleaving_comments`. -/
theorem own_inv_interleaving {r ph mf ml : Nat} {set : Option (List Nat)} {d d' : Doc} {cs : List Nat} (hi : OwnInv d) :
    (claimInter r ph mf ml set d = .ok (d', cs) → OwnInv d') ∧ (unclaimInter r set d = .ok (d', cs) → OwnInv d') :=
  ⟨hi.claimInter, hi.unclaimInter⟩

/-- `own_inv`: every attribution call (claim / unclaim of leading, trailing and interleaving comments, refused or
not) preserves the ownership invariant. -/
theorem own_inv {d : Doc} (hi : OwnInv d) (c : Call) : OwnInv (runCall d c) := hi.runCall c

/-- `own_inv` along any sequence of calls — in particular `auto_claim_comments`, at parse time or later. -/
theorem own_inv_auto {d : Doc} (hi : OwnInv d) (calls : List Call) : OwnInv (autoClaim d calls) := hi.autoClaim calls

/-- `claim_stops_at_claimed`: `_find_outer` only ever yields unclaimed block comments, as a subsequence of its walk. -/
theorem claim_stops_at_claimed (inSet : Nat → Bool) (limit prev : Nat) (w : List Tk) :
    (findOuter inSet limit prev w).Sublist w ∧
    ∀ t ∈ findOuter inSet limit prev w, t.kind = .blockComment ∧ t.claimed = false :=
  findOuter_spec inSet limit prev w

/-- `claim_stops_at_claimed`, second half: nothing at or beyond a claimed comment is yielded. -/
theorem claim_stops_before_claimed {inSet : Nat → Bool} {limit : Nat} {c : Tk} (hk : c.kind = .blockComment)
    (htx : c.text ≠ []) (hcl : c.claimed = true) (a b : List Tk) (prev : Nat) :
    (findOuter inSet limit prev (a ++ c :: b)).Sublist a :=
  findOuter_stops hk htx hcl a b prev

/-- What `claim_interleaving_comments` claims: a duplicate-free list of comments that were unclaimed tokens of the
store; the field's comment entries afterwards are the old ones plus exactly these; all of them (and nothing else)
get the flag. -/
theorem interleaving_claims_only_unclaimed {ph : Nat} {items : List Item} {mf ml : Nat} {set : Option (List Nat)}
    {s : Store} {o : InterOut} (hn : IdsNodup s) (h : claimInterleaving ph items mf ml set s = .ok o) :
    ∃ new : List Tk,
      o.store.Perm (setFlags (itemCommentIds o.items) true s) ∧
      o.comments = itemCommentIds o.items ∧
      (itemCommentIds o.items).Perm (new.map (·.id) ++ itemCommentIds items) ∧
      (new.map (·.id)).Nodup ∧
      ∀ t ∈ new, t ∈ s ∧ t.kind = .blockComment ∧ t.claimed = false :=
  claimInterleaving_spec hn h

/-- `unclaim_claim_restores` (leading comment; layout unchanged = comment, newline, first token of the node, with
placeholders anywhere in between): `unclaim_leading_comment()` followed by `claim_leading_comment()` returns the same
comment, refills the same slot, leaves every other slot alone, and restores every non-placeholder token with its
flag in its place; only placeholders may sit elsewhere, so the visible text is equal. -/
theorem unclaim_claim_restores {d : Doc} {n c : Nat} {A P2 P1 B : List Tk} {ct nl st : Tk} (ig : Bool)
    (hi : OwnInv d) (hslot : lookup n d.leading = some c)
    (hlay : d.store = A ++ ct :: (P2 ++ nl :: (P1 ++ st :: B)))
    (hid : ct.id = c) (hk : ct.kind = .blockComment) (hnl : nl.kind = .newline)
    (hP1 : ∀ t ∈ P1, isPh t = true) (hP2 : ∀ t ∈ P2, isPh t = true) :
    ∃ d2, claimLeading n st.id ig (unclaimLeading n d).1 = .ok (d2, some c) ∧
      (∀ m, lookup m d2.leading = lookup m d.leading) ∧ d2.trailing = d.trailing ∧ d2.reps = d.reps ∧
      (owned d2).Perm (owned d) ∧
      d2.store.filter (fun t => !isPh t) = d.store.filter (fun t => !isPh t) ∧
      d2.store.Perm d.store := by
  obtain ⟨d2, h1, h2, h3, h4, h5, h6⟩ := unclaimLeading_claimLeading ig hi hslot hlay hid hk hnl hP1 hP2
  refine ⟨d2, h1, ?_, h4, h5, ?_, ?_, ?_⟩
  · intro m
    by_cases hm : m = n
    · rw [hm, h2, hslot]
    · exact h3 m hm
  · -- the slot content is what it was
    have hun : (unclaimLeading n d).1.leading = eraseKey n d.leading := by
      unfold unclaimLeading; simp [hslot]
    have hd2 : d2.leading = (n, c) :: eraseKey n d.leading := by
      unfold claimLeading at h1
      rw [hun] at h1
      simp only [lookup_eraseKey_self hi.lkeys] at h1
      split at h1
      · cases h1
      · cases h1
      · rename_i s c' _
        cases h1
        simp
    have hp := lookup_perm hslot
    simp only [owned, hd2, h4, h5, List.map_cons]
    rw [List.perm_iff_count] at hp ⊢
    intro z; have := hp z
    simp only [List.count_append, List.count_cons] at this ⊢; omega
  · have f1 := filter_nonPh_of_allPh hP1
    have f2 := filter_nonPh_of_allPh hP2
    rw [h6, hlay]
    simp [List.filter_append, List.filter_cons, f1, f2]
  · rw [h6, hlay]
    rw [List.perm_iff_count]
    intro z
    simp only [List.count_append, List.count_cons]; omega

/-- `auto_idempotent_partial`: once every block comment of the store is claimed, any further `auto_claim_comments`
(any sequence of `ignore_if_already_claimed=True` claims and universe interleaving claims, with any arguments)
changes nothing at all: same store (order and flags), same slots.
Partial: that the FIRST run on a `File` leaves every comment claimed depends on the tree walk and is evaluated on the
real code (`C14:unowned-after-default-parse`, `C14:not-idempotent`), not proved here. -/
theorem auto_idempotent_partial {d : Doc} (ha : AllClaimed d.store) {calls : List Call}
    (hc : ∀ c ∈ calls, c.isAuto = true) : autoClaim d calls = d :=
  autoClaim_fixed ha hc

/-! ### Non-vacuity -/

/-- `aa: 1` (node 1: tokens 1..2), the placeholder of the empty postings field, newline, `  ; c`, dedent mark. -/
def exStore : Store :=
  [⟨1, .other, "aa:".toList, false⟩, ⟨2, .mark, [], false⟩, ⟨3, .placeholder, [], false⟩,
   ⟨4, .newline, "\n".toList, false⟩, ⟨5, .blockComment, "  ; c".toList, false⟩, ⟨6, .mark, [], false⟩]

def exDoc : Doc := { store := exStore, leading := [], trailing := [], reps := [(7, [])] }

/-- The invariant holds on the concrete document (nothing owned, nothing flagged). -/
theorem exDoc_inv : OwnInv exDoc := by
  refine ⟨by unfold IdsNodup; decide, by decide, by decide, by decide, ?_⟩
  intro t ht hk
  simp [exDoc, exStore] at ht
  rcases ht with rfl | rfl | rfl | rfl | rfl | rfl <;> simp_all [owned, exDoc, itemCommentIds]

/-- A comment directly below a meta line with a placeholder in between: the trailing claim of node 1 (last token 2)
takes comment 5, moves placeholder 3 behind it, and the slot is filled. -/
example : (claimTrailing 1 2 false exDoc).toOption.map (fun p => (p.1.store.map (fun t => (t.id, t.claimed)), owners p.1, p.2)) =
    some ([(1, false), (2, false), (4, false), (5, true), (3, false), (6, false)], [(Owner.trailing 1, 5)], some 5) := by
  decide

/-- … and the invariant holds afterwards by `own_inv`. -/
example : OwnInv (runCall exDoc (.claimTrailing 1 2 false)) := own_inv exDoc_inv _

/-- A second claimant is refused (`ValueError('Comment already claimed.')`) or ignored. -/
example : (claimTrailing 9 2 false (runCall exDoc (.claimTrailing 1 2 false))).toOption.isNone = true := by decide
example : ((claimTrailing 9 2 true (runCall exDoc (.claimTrailing 1 2 false))).toOption.map (·.2)) = some none := by decide

/-- A comment before a dedent: from the dedent mark (last token of the enclosing directive) nothing is claimable
(the walk meets the end of the store), while the interleaving claim of the postings field (placeholder 3, enclosing
model 0..6) takes the comment as a standalone entry. -/
example : ((claimTrailing 8 6 true exDoc).toOption.map (·.2)) = some none := by decide
example : (claimInter 7 3 1 6 none exDoc).toOption.map (fun p => (owners p.1, p.2)) =
    some ([(Owner.item 7 0, 5)], [5]) := by decide

/-- `unclaim_claim_restores` instantiated: posting (node 1, first token 6) with leading comment 3. -/
def exDoc2 : Doc :=
  { store := [⟨1, .mark, [], false⟩, ⟨2, .newline, "\n".toList, false⟩, ⟨3, .blockComment, "  ; c".toList, true⟩,
              ⟨4, .placeholder, [], false⟩, ⟨5, .newline, "\n".toList, false⟩, ⟨6, .other, "  ".toList, false⟩],
    leading := [(1, 3)], trailing := [], reps := [] }

example : (claimLeading 1 6 false (unclaimLeading 1 exDoc2).1).toOption.map
      (fun p => (p.1.store.map (fun t => (t.id, t.claimed)), p.1.leading, p.2)) =
    some ([(1, false), (2, false), (4, false), (3, true), (5, false), (6, false)], [(1, 3)], some 3) := by decide

/-- `_find_outer` walks over newline and zero-width tokens, yields the unclaimed comment 2 and stops at the claimed
comment 4: comment 6 behind it is not reached. -/
example : (findOuter (fun _ => true) 99 0
    [⟨1, .newline, "\n".toList, false⟩, ⟨2, .blockComment, ";a".toList, false⟩, ⟨3, .mark, [], false⟩,
     ⟨4, .blockComment, ";b".toList, true⟩, ⟨5, .newline, "\n".toList, false⟩, ⟨6, .blockComment, ";c".toList, false⟩]).map (·.id)
    = [2] := by decide

end Autobean.C14
