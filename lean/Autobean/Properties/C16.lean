import Autobean.Model.Editor
import Autobean.Proofs.Editor
/-
C16 — the editor writes exactly the edited files, exactly, and nothing else.

Model: `Autobean/Model/Editor.lean` (transcription of `autobean_refactor/editor.py` over an abstract file
system, with the newline-translation mode as a parameter).  The parser, `glob`, `normpath`, UTF-8 and the
OS are outside the model; they are tied by the correspondence runs of `harness/props/c16.py`.
-/
namespace Autobean.C16
open Autobean.Editor

/-- **Recursive editing visits every matched file exactly once, whatever spelling reaches it.**
`includes` is any include relation on path spellings (any graph: cycles, diamonds, self-includes, duplicate
include lines) and `ident` maps a spelling to the file it names (`os.path.realpath`); two spellings of one
file include the same files (`Coherent`).  If all reachable spellings lie in a finite list `univ`, the walk of
`edit_file_recursive` started with at least `fuelBound includes univ` (= number of include edges leaving
`univ` + 1) iterations of fuel terminates, and its visit list (= the keys of the mapping)
* names no file twice (`(visit.map ident).Nodup`, hence `visit.Nodup`),
* contains only paths reachable from the root, and
* contains a spelling of every file reachable from the root. -/
theorem bfs_once {α ι : Type} [DecidableEq ι] (includes : α → List α) (ident : α → ι)
    (hcoh : Coherent includes ident) (root : α) (univ : List α)
    (huniv : ∀ p, Reachable includes root p → p ∈ univ) (fuel : Nat) (hfuel : fuelBound includes univ ≤ fuel) :
    ∃ visit, bfs includes ident root fuel = some visit ∧ (visit.map ident).Nodup ∧ visit.Nodup ∧
      (∀ p ∈ visit, Reachable includes root p) ∧
      (∀ p, Reachable includes root p → ident p ∈ visit.map ident) := by
  have hinit := BfsInv.init includes ident root
  obtain ⟨out, hout⟩ := bfsLoop_isSome univ huniv fuel [root] [] hinit
    (by rw [pending_nil]; simpa [fuelBound, Nat.add_comm] using hfuel)
  obtain ⟨h1, h2, h3⟩ := (bfsLoop_inv fuel _ _ _ hinit hout).final hcoh
  exact ⟨out, hout, h1, nodup_of_nodup_map ident out h1, h2, h3⟩

/-- Whatever the fuel, a walk that ends has visited exactly the reachable files, once each. -/
theorem bfs_sound {α ι : Type} [DecidableEq ι] (includes : α → List α) (ident : α → ι)
    (hcoh : Coherent includes ident) (root : α) (fuel : Nat) (visit : List α)
    (h : bfs includes ident root fuel = some visit) :
    (visit.map ident).Nodup ∧ (∀ p ∈ visit, Reachable includes root p) ∧
      (∀ p, Reachable includes root p → ident p ∈ visit.map ident) :=
  (bfsLoop_inv fuel _ _ _ (BfsInv.init includes ident root) h).final hcoh

/-- When every file has one spelling (`ident = id`) the visit list is exactly the reachable set. -/
theorem bfs_once_id {α : Type} [DecidableEq α] (includes : α → List α) (root : α) (univ : List α)
    (huniv : ∀ p, Reachable includes root p → p ∈ univ) (fuel : Nat) (hfuel : fuelBound includes univ ≤ fuel) :
    ∃ visit, bfs includes (fun p => p) root fuel = some visit ∧ visit.Nodup ∧
      ∀ p, p ∈ visit ↔ Reachable includes root p := by
  obtain ⟨visit, h1, _, h3, h4, h5⟩ :=
    bfs_once includes (fun p => p) (coherent_id includes) root univ huniv fuel hfuel
  exact ⟨visit, h1, h3, fun p => ⟨h4 p, fun hr => by simpa using h5 p hr⟩⟩

/-- **After `exit`, exactly the edited files were written, and nothing else.**
`texts` is what was read (path ↦ text), `files` the mapping the body left behind (path ↦ printed model,
distinct keys as in a dict), `fs` the file system when the block ends.  For every path `p`:
1. changed model (printed text differs from the text read, or new key) ⇒ the file contains exactly the
   printed model, one `write p` is logged and `p` is not unlinked;
2. unchanged model ⇒ `p` is neither written nor unlinked and its content is what it was;
3. key removed from the mapping ⇒ the file is deleted (and not written);
4. new key ⇒ the file is created with the printed model;
5. `p` never read and not in the mapping ⇒ untouched;
and 6. every `mkdir` in the log is the non-empty dirname of a key of the mapping. -/
theorem exit_writes (translate : Bool) (texts files : List (Path × Text)) (fs : FS)
    (hkeys : (files.map (·.1)).Nodup) :
    (∀ p : Path,
      (∀ printed, (p, printed) ∈ files → texts.lookup p ≠ some printed →
        (exit translate texts files fs).1.read p = some (encode translate printed) ∧
        Event.write p ∈ (exit translate texts files fs).2 ∧ Event.unlink p ∉ (exit translate texts files fs).2) ∧
      (∀ printed, (p, printed) ∈ files → texts.lookup p = some printed →
        (exit translate texts files fs).1.read p = fs.read p ∧
        Event.write p ∉ (exit translate texts files fs).2 ∧ Event.unlink p ∉ (exit translate texts files fs).2) ∧
      (p ∈ texts.map (·.1) → p ∉ files.map (·.1) →
        (exit translate texts files fs).1.read p = none ∧
        Event.unlink p ∈ (exit translate texts files fs).2 ∧ Event.write p ∉ (exit translate texts files fs).2) ∧
      (∀ printed, (p, printed) ∈ files → p ∉ texts.map (·.1) →
        (exit translate texts files fs).1.read p = some (encode translate printed) ∧
        Event.write p ∈ (exit translate texts files fs).2) ∧
      (p ∉ texts.map (·.1) → p ∉ files.map (·.1) →
        (exit translate texts files fs).1.read p = fs.read p ∧
        Event.write p ∉ (exit translate texts files fs).2 ∧ Event.unlink p ∉ (exit translate texts files fs).2)) ∧
    (∀ d, Event.mkdir d ∈ (exit translate texts files fs).2 → ∃ e ∈ files, d = dirname e.1 ∧ d ≠ []) := by
  -- shape of the result
  have hread : ∀ q, (exit translate texts files fs).1.read q =
      match files.lookup q with
      | some printed => if texts.lookup q = some printed then
          (if q ∈ removedKeys texts files then none else fs.read q) else some (encode translate printed)
      | none => if q ∈ removedKeys texts files then none else fs.read q := by
    intro q
    simp only [exit]
    rw [writePhase_read _ _ _ _ _ hkeys]
    cases files.lookup q <;> simp only [unlinkPhase_read]
  have hwrite : ∀ q, Event.write q ∈ (exit translate texts files fs).2 ↔
      ∃ printed, (q, printed) ∈ files ∧ texts.lookup q ≠ some printed := by
    intro q
    simp only [exit, List.mem_append, unlinkPhase_log, writePhase_write_mem]
    simp
  have hunlink : ∀ q, Event.unlink q ∈ (exit translate texts files fs).2 ↔ q ∈ removedKeys texts files := by
    intro q
    simp only [exit, List.mem_append, unlinkPhase_log]
    constructor
    · rintro (h | h)
      · simpa using h
      · exact absurd h (writePhase_unlink_not_mem _ _ _ _ _)
    · intro h; exact .inl (by simpa using h)
  have hkey : ∀ q printed, (q, printed) ∈ files → q ∈ files.map (·.1) :=
    fun q printed h => List.mem_map.mpr ⟨(q, printed), h, rfl⟩
  have hnotrem : ∀ q printed, (q, printed) ∈ files → q ∉ removedKeys texts files := by
    intro q printed h hr
    exact ((mem_removedKeys ..).mp hr).2 (hkey q printed h)
  refine ⟨fun p => ⟨?_, ?_, ?_, ?_, ?_⟩, ?_⟩
  · intro printed hm hne
    refine ⟨?_, (hwrite p).mpr ⟨printed, hm, hne⟩, fun h => hnotrem p printed hm ((hunlink p).mp h)⟩
    rw [hread, lookup_of_mem_nodup files hkeys p printed hm]
    simp [hne]
  · intro printed hm heq
    refine ⟨?_, ?_, fun h => hnotrem p printed hm ((hunlink p).mp h)⟩
    · rw [hread, lookup_of_mem_nodup files hkeys p printed hm]
      simp [heq, hnotrem p printed hm]
    · rw [hwrite]
      rintro ⟨pr2, hm2, hne2⟩
      have h1 := lookup_of_mem_nodup files hkeys p printed hm
      have h2 := lookup_of_mem_nodup files hkeys p pr2 hm2
      rw [h1] at h2
      cases h2
      exact hne2 heq
  · intro ht hf
    have hrem : p ∈ removedKeys texts files := (mem_removedKeys ..).mpr ⟨ht, hf⟩
    refine ⟨?_, (hunlink p).mpr hrem, ?_⟩
    · rw [hread, lookup_none_of_not_mem_keys files p hf]
      simp [hrem]
    · rw [hwrite]
      rintro ⟨pr, hm, _⟩
      exact hf (hkey p pr hm)
  · intro printed hm ht
    have hne : texts.lookup p ≠ some printed := by
      rw [lookup_none_of_not_mem_keys texts p ht]; simp
    refine ⟨?_, (hwrite p).mpr ⟨printed, hm, hne⟩⟩
    rw [hread, lookup_of_mem_nodup files hkeys p printed hm]
    simp [hne]
  · intro ht hf
    have hrem : p ∉ removedKeys texts files := fun h => ht ((mem_removedKeys ..).mp h).1
    refine ⟨?_, ?_, fun h => hrem ((hunlink p).mp h)⟩
    · rw [hread, lookup_none_of_not_mem_keys files p hf]
      simp [hrem]
    · rw [hwrite]
      rintro ⟨pr, hm, _⟩
      exact hf (hkey p pr hm)
  · intro d hd
    simp only [exit, List.mem_append, unlinkPhase_log] at hd
    rcases hd with h | h
    · simp at h
    · exact (writePhase_mkdir_mem ..).mp h

/-- **If the block raises, no file is touched**: the write log is empty and the file system is the same,
for `edit_file_recursive` and for `edit_file` (the code after `yield` does not run). -/
theorem raise_untouched (translate : Bool) (includes : Path → List Path) (ident : Path → Path) (fuel : Nat)
    (root : Path) (fs : FS) :
    (∀ body : List (Path × Text) → Option (List (Path × Text)),
      (∀ texts, enter translate includes ident fuel root fs = .ok texts → body texts = none) →
      (editFileRecursive translate includes ident fuel root body fs).log = [] ∧
      (editFileRecursive translate includes ident fuel root body fs).fs = fs ∧
      (editFileRecursive translate includes ident fuel root body fs).raised ≠ none) ∧
    (∀ body : Text → Option Text,
      (∀ b, fs.read root = some b → body (decode translate b) = none) →
      (editFile translate root body fs).log = [] ∧ (editFile translate root body fs).fs = fs ∧
      (editFile translate root body fs).raised ≠ none) := by
  constructor
  · intro body hb
    unfold editFileRecursive
    cases he : enter translate includes ident fuel root fs with
    | error e => simp
    | ok texts => simp [hb texts he]
  · intro body hb
    unfold editFile
    cases hr : fs.read root with
    | none => simp
    | some b => simp [hb b hr]

/-- The single-file editor writes iff the printed model differs from what was read; then the file is
exactly the printed model, and no other path is affected. -/
theorem edit_file_writes (translate : Bool) (p : Path) (body : Text → Option Text) (fs : FS) (b : Bytes)
    (printed : Text) (hr : fs.read p = some b) (hb : body (decode translate b) = some printed) :
    (printed ≠ decode translate b →
      (editFile translate p body fs).fs.read p = some (encode translate printed) ∧
      (editFile translate p body fs).log = [Event.write p]) ∧
    (printed = decode translate b →
      (editFile translate p body fs).fs = fs ∧ (editFile translate p body fs).log = []) ∧
    (∀ q, q ≠ p → (editFile translate p body fs).fs.read q = fs.read q) := by
  unfold editFile
  simp only [hr, hb]
  refine ⟨?_, ?_, ?_⟩
  · intro hne; simp [hne, read_write]
  · intro heq; simp [heq]
  · intro q hq
    split
    · rfl
    · simp [read_write, hq]

/-- **End-to-end statement for `edit_file_recursive`** (walk + read + exit):
with enough fuel and every matched file present, the block does not fail on its own; the mapping handed to
the body has one key per reachable file (no file twice, only reachable paths, every reachable file under
one of its spellings) with the decoded contents; afterwards every key of the mapping left by the body holds
the printed model when it differs from what was read and is untouched otherwise; keys that were handed out
and removed are deleted; every other path is unchanged. -/
theorem edit_file_recursive_spec (translate : Bool) (includes : Path → List Path) (ident : Path → Path)
    (hcoh : Coherent includes ident) (root : Path)
    (univ : List Path) (huniv : ∀ p, Reachable includes root p → p ∈ univ)
    (fuel : Nat) (hfuel : fuelBound includes univ ≤ fuel) (fs : FS)
    (hexists : ∀ p, Reachable includes root p → (fs.read p).isSome)
    (body : List (Path × Text) → Option (List (Path × Text))) :
    ∃ texts, enter translate includes ident fuel root fs = .ok texts ∧
      ((texts.map (·.1)).map ident).Nodup ∧ (texts.map (·.1)).Nodup ∧
      (∀ p ∈ texts.map (·.1), Reachable includes root p) ∧
      (∀ p, Reachable includes root p → ident p ∈ (texts.map (·.1)).map ident) ∧
      (∀ e ∈ texts, ∃ b, fs.read e.1 = some b ∧ e.2 = decode translate b) ∧
      (editFileRecursive translate includes ident fuel root body fs).visit = texts.map (·.1) ∧
      ∀ files, body texts = some files → (files.map (·.1)).Nodup →
        (editFileRecursive translate includes ident fuel root body fs).raised = none ∧
        ∀ p,
          (∀ printed, (p, printed) ∈ files →
            (editFileRecursive translate includes ident fuel root body fs).fs.read p =
              if texts.lookup p = some printed then fs.read p else some (encode translate printed)) ∧
          (p ∉ files.map (·.1) → p ∈ texts.map (·.1) →
            (editFileRecursive translate includes ident fuel root body fs).fs.read p = none) ∧
          (p ∉ files.map (·.1) → p ∉ texts.map (·.1) →
            (editFileRecursive translate includes ident fuel root body fs).fs.read p = fs.read p) := by
  obtain ⟨visit, hv, hnid, hnd, hreach, hcover⟩ := bfs_once includes ident hcoh root univ huniv fuel hfuel
  obtain ⟨texts, ht⟩ := readAll_isSome translate fs visit (fun p hp => hexists p (hreach p hp))
  obtain ⟨hk, hdec⟩ := readAll_spec translate fs visit texts ht
  have henter : enter translate includes ident fuel root fs = .ok texts := by simp [enter, hv, ht]
  refine ⟨texts, henter, hk ▸ hnid, hk ▸ hnd, hk ▸ hreach, hk ▸ hcover, hdec, ?_, ?_⟩
  · unfold editFileRecursive
    rw [henter]
    cases hb : body texts <;> simp [hb]
  · intro files hb hfk
    have hrun : editFileRecursive translate includes ident fuel root body fs =
        { fs := (exit translate texts files fs).1, log := (exit translate texts files fs).2,
          raised := none, visit := texts.map (·.1) } := by
      unfold editFileRecursive
      rw [henter]
      simp [hb]
    rw [hrun]
    refine ⟨rfl, fun p => ⟨?_, ?_, ?_⟩⟩
    · intro printed hm
      obtain ⟨hall, _⟩ := exit_writes translate texts files fs hfk
      obtain ⟨h1, h2, _, _, _⟩ := hall p
      by_cases hc : texts.lookup p = some printed
      · rw [if_pos hc]; exact (h2 printed hm hc).1
      · rw [if_neg hc]; exact (h1 printed hm hc).1
    · intro hf hc
      obtain ⟨hall, _⟩ := exit_writes translate texts files fs hfk
      obtain ⟨_, _, h3, _, _⟩ := hall p
      exact (h3 hc hf).1
    · intro hf hc
      obtain ⟨hall, _⟩ := exit_writes translate texts files fs hfk
      obtain ⟨_, _, _, _, h5⟩ := hall p
      exact (h5 hc hf).1

/-- **Identity decoding round-trips** (the repaired mode, `newline=''`, `translate = false`):
reading decodes to exactly the bytes on disk and writing encodes to exactly the text, so
(a) given C01 (`print (parse t) = t`), an untouched model prints to exactly the bytes on disk and
`edit_file` neither writes nor changes anything;
(b) given the C02/C03 frame (`text = pre ++ old ++ post`, printed model `= pre ++ new ++ post`), the file
afterwards is `pre ++ new ++ post` where `pre` and `post` are the ORIGINAL bytes — every character outside
the edited fragment, carriage returns included, is as it was on disk. -/
theorem identity_decoding_roundtrip :
    (∀ b : Bytes, decode false b = b ∧ encode false b = b) ∧
    (∀ {M : Type} (parse : Text → M) (print : M → Text), (∀ t, print (parse t) = t) →
      ∀ (fs : FS) (p : Path) (b : Bytes), fs.read p = some b →
        encode false (print (parse (decode false b))) = b ∧
        (editFile false p (fun t => some (print (parse t))) fs).fs = fs ∧
        (editFile false p (fun t => some (print (parse t))) fs).log = []) ∧
    (∀ (fs : FS) (p : Path) (pre old new post : Bytes) (body : Text → Option Text),
      fs.read p = some (pre ++ old ++ post) →
      body (pre ++ old ++ post) = some (pre ++ new ++ post) →
      (editFile false p body fs).fs.read p = some (pre ++ new ++ post)) := by
  refine ⟨fun b => ⟨rfl, rfl⟩, ?_, ?_⟩
  · intro M parse print hpp fs p b hr
    refine ⟨by simp [decode, encode, hpp], ?_, ?_⟩ <;>
    · unfold editFile; simp [hr, decode, hpp]
  · intro fs p pre old new post body hr hb
    unfold editFile
    simp only [hr, decode, Bool.false_eq_true, if_false, hb]
    split
    · rename_i h; rw [h]; exact hr
    · simp [read_write, encode]

/-- The same frame statement for `edit_file_recursive` (identity decoding): an edited entry of the mapping
ends up as `pre ++ new ++ post` with the original `pre`/`post` bytes. -/
theorem identity_decoding_frame_recursive (includes : Path → List Path) (ident : Path → Path)
    (hcoh : Coherent includes ident) (root : Path)
    (univ : List Path) (huniv : ∀ p, Reachable includes root p → p ∈ univ)
    (fuel : Nat) (hfuel : fuelBound includes univ ≤ fuel) (fs : FS)
    (hexists : ∀ p, Reachable includes root p → (fs.read p).isSome)
    (body : List (Path × Text) → Option (List (Path × Text)))
    (p : Path) (pre old new post : Bytes) (_hdisk : fs.read p = some (pre ++ old ++ post))
    (hbody : ∀ texts, enter false includes ident fuel root fs = .ok texts →
      ∃ files, body texts = some files ∧ (files.map (·.1)).Nodup ∧ (p, pre ++ new ++ post) ∈ files) :
    (editFileRecursive false includes ident fuel root body fs).fs.read p = some (pre ++ new ++ post) := by
  obtain ⟨texts, henter, _, _, _, _, hdec, _, hspec⟩ :=
    edit_file_recursive_spec false includes ident hcoh root univ huniv fuel hfuel fs hexists body
  obtain ⟨files, hb, hnd, hm⟩ := hbody texts henter
  obtain ⟨_, hall⟩ := hspec files hb hnd
  rw [(hall p).1 _ hm]
  split
  · rename_i hl
    -- unchanged: the text read equals the printed text, and it is what is on disk
    have hmem : p ∈ texts.map (·.1) := mem_keys_of_lookup_some texts p _ hl
    obtain ⟨e, he, hep⟩ := List.mem_map.mp hmem
    obtain ⟨b, hb1, hb2⟩ := hdec e he
    -- find the entry that `lookup` returns
    have : ∀ (m : List (Path × Text)) (v : Text), m.lookup p = some v → (p, v) ∈ m := by
      intro m v
      induction m with
      | nil => intro h; cases h
      | cons x xs ih =>
        obtain ⟨k, w⟩ := x
        simp only [List.lookup_cons]
        by_cases hk : p = k
        · subst hk; simp only [beq_self_eq_true]; intro h; cases h; exact List.mem_cons_self ..
        · have : (p == k) = false := by simpa using hk
          simp only [this]; intro h; exact List.mem_cons_of_mem _ (ih h)
    obtain ⟨b', hb1', hb2'⟩ := hdec _ (this texts _ hl)
    simp only [decode, Bool.false_eq_true, if_false] at hb2'
    rw [hb1', ← hb2']
  · simp [encode]

/-- **With newline translation the statement is false** (the behaviour before the repair, `newline=None`):
a CRLF file `a\r\nb\r\n` whose first token `a` is changed to `x` is written back as `x\nb\n`: every `\r`
outside the edited token is lost, although the edit itself satisfies the frame hypothesis on the decoded
text.  With identity decoding the same edit gives `x\r\nb\r\n`. -/
theorem crlf_witness :
    let p : Path := ['m']
    let bytes : Bytes := ['a', '\r', '\n', 'b', '\r', '\n']
    let fs : FS := [(p, bytes)]
    let body : Text → Option Text := fun t => match t with
      | 'a' :: rest => some ('x' :: rest)      -- one token edited: `[] ++ "a" ++ rest` ↦ `[] ++ "x" ++ rest`
      | _ => none
    (editFile true p body fs).fs.read p = some ['x', '\n', 'b', '\n'] ∧
    (editFile true p body fs).fs.read p ≠ some (['x'] ++ ['\r', '\n', 'b', '\r', '\n']) ∧
    (editFile false p body fs).fs.read p = some (['x'] ++ ['\r', '\n', 'b', '\r', '\n']) ∧
    ¬ (∀ b : Bytes, encode true (decode true b) = b) := by
  refine ⟨by decide, by decide, by decide, ?_⟩
  intro h
  exact absurd (h ['\r', '\n']) (by decide)

/-! ### Non-vacuity: the hypotheses are satisfiable by concrete non-trivial graphs -/

/-- A diamond with a duplicate include line: 0 → 1, 2, 1;  1 → 3;  2 → 3. -/
def diamond : Nat → List Nat
  | 0 => [1, 2, 1]
  | 1 => [3]
  | 2 => [3]
  | _ => []

/-- A cycle with a self-include: 0 → 1;  1 → 2, 1;  2 → 0. -/
def cycle : Nat → List Nat
  | 0 => [1]
  | 1 => [2, 1]
  | 2 => [0]
  | _ => []

example : bfs diamond id 0 (fuelBound diamond [0, 1, 2, 3]) = some [0, 1, 2, 3] := by decide
example : bfs cycle id 0 (fuelBound cycle [0, 1, 2]) = some [0, 1, 2] := by decide
example : fuelBound diamond [0, 1, 2, 3] = 6 ∧ fuelBound cycle [0, 1, 2] = 5 := by decide
/-- One unit less fuel than the bound is not enough for the diamond: the bound is tight there. -/
example : bfs diamond id 0 5 = none := by decide

example : ∀ p, Reachable diamond 0 p → p ∈ [0, 1, 2, 3] :=
  reachable_subset_of_closed [0, 1, 2, 3] (by decide) (by decide)
example : ∀ p, Reachable cycle 0 p → p ∈ [0, 1, 2] :=
  reachable_subset_of_closed [0, 1, 2] (by decide) (by decide)

/-- `bfs_once_id` instantiated on the cycle: terminates, visits 0, 1, 2 once each. -/
example : ∃ visit, bfs cycle (fun p => p) 0 5 = some visit ∧ visit.Nodup ∧ ∀ p, p ∈ visit ↔ Reachable cycle 0 p :=
  bfs_once_id cycle 0 [0, 1, 2] (reachable_subset_of_closed [0, 1, 2] (by decide) (by decide)) 5 (by decide)

/-- Two spellings per file: spelling `n` and spelling `n + 10` name file `n % 10`
(think `main.bean` and `../ledger/main.bean`).  0 → 1;  1 → 10 (the root under its other spelling), 12;
12 → 11 (file 1 again).  The walk keeps the first spelling of each file: 0, 1, 12. -/
def aliased : Fin 13 → List (Fin 13)
  | 0 => [1]
  | 1 => [10, 12]
  | 10 => [11]
  | 11 => [0, 2]
  | 12 => [11]
  | 2 => [1]
  | _ => []

def fileOf (p : Fin 13) : Nat := p.val % 10

example : bfs aliased fileOf 0 (fuelBound aliased [0, 1, 2, 10, 11, 12]) = some [0, 1, 12] := by decide
/-- Without the identity (the walk before repair 3c8193d) the same files are visited twice. -/
example : bfs aliased id 0 (fuelBound aliased [0, 1, 2, 10, 11, 12]) = some [0, 1, 10, 12, 11, 2] := by decide
example : Coherent aliased fileOf := by unfold Coherent; decide
/-- `bfs_once` instantiated on the aliased graph. -/
example : ∃ visit, bfs aliased fileOf 0 9 = some visit ∧ (visit.map fileOf).Nodup ∧ visit.Nodup ∧
    (∀ p ∈ visit, Reachable aliased 0 p) ∧ (∀ p, Reachable aliased 0 p → fileOf p ∈ visit.map fileOf) :=
  bfs_once aliased fileOf (by unfold Coherent; decide) 0 [0, 1, 2, 10, 11, 12]
    (reachable_subset_of_closed _ (by decide) (by decide)) 9 (by decide)

/-- A concrete run of the whole editor on a diamond of files: `m` includes `a`, `b`; both include `c`.
The body edits `a`, removes `b` and adds `n/x`; `c` and the unrelated `z` stay as they are. -/
def demoFS : FS := [(['m'], ['1']), (['a'], ['2', '\r', '\n']), (['b'], ['3']), (['c'], ['4']), (['z'], ['5'])]
def demoInc : Path → List Path := fun p =>
  if p = ['m'] then [['a'], ['b']] else if p = ['a'] then [['c']] else if p = ['b'] then [['c'], ['m']] else []
def demoBody := bodyOf [Action.edit ['a'] ['9', '\r', '\n'], Action.del ['b'], Action.add ['n', '/', 'x'] ['7']]

example : (editFileRecursive false demoInc id 10 ['m'] (demoBody false) demoFS).visit = [['m'], ['a'], ['b'], ['c']] := by
  decide
example : (editFileRecursive false demoInc id 10 ['m'] (demoBody false) demoFS).log =
    [Event.unlink ['b'], Event.write ['a'], Event.mkdir ['n'], Event.write ['n', '/', 'x']] := by decide
example : (editFileRecursive false demoInc id 10 ['m'] (demoBody false) demoFS).fs =
    [(['n', '/', 'x'], ['7']), (['a'], ['9', '\r', '\n']), (['m'], ['1']), (['c'], ['4']), (['z'], ['5'])] := by decide
example : (editFileRecursive false demoInc id 10 ['m'] (demoBody true) demoFS).fs = demoFS ∧
    (editFileRecursive false demoInc id 10 ['m'] (demoBody true) demoFS).log = [] := by decide

end Autobean.C16
