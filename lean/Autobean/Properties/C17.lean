import Autobean.Model.Spacing
import Autobean.Proofs.Spacing
/-!
C17 — spacing accessors read and write exactly the whitespace between neighbours.

Model: `Autobean/Model/Spacing.lean` (transcription of `models/internal/spacing_accessors.py`).  The store is a
list of tokens `Tk = {id, kind, text}`; a model is given by the ids of its first and last token.

Vocabulary used in the statements
* a token is *zero-width* when its text is empty (`Eol`, `DedentMark`, placeholders of repeated fields, …);
* a token is of *blank class* when it is a `Newline` or a `Whitespace` token (`Tk.isBlankKind`);
* `ne l` are the tokens of `l` with non-empty text;
* `Stops r rest` ("the scan stops at `rest`"): `rest` is exhausted, or its first token is not of blank class and —
  unless `r` has a non-empty member — has non-empty text.  (A zero-width first token is *skipped* by
  `_find_spacing`'s first loop when nothing was collected yet; this is the exact side condition.)
-/
namespace Autobean.C17
open Autobean.Spacing

/-- The token whose neighbourhood a side looks at: the model's first token for `before`, its last for `after`. -/
def anchor (first last : Nat) : Side → Nat
  | .before => first
  | .after => last

/-- Mirror image of `Stops` for the `before` side: the scan, walking backwards, stops at the *last* token of `rest`. -/
def StopsEnd (r rest : List Tk) : Prop :=
  rest = [] ∨ ∃ init h, rest = init ++ [h] ∧ h.isBlankKind = false ∧ (h.isEmpty = false ∨ ne r ≠ [])

theorem stopsEnd_reverse {r rest : List Tk} (h : StopsEnd r rest) : Stops r.reverse rest.reverse := by
  rcases h with rfl | ⟨init, x, rfl, hb, he⟩
  · exact Or.inl rfl
  · refine Or.inr ⟨x, init.reverse, by simp, hb, ?_⟩
    rcases he with he | he
    · exact Or.inl he
    · right; rw [ne_reverse]; intro h; exact he (by simpa using h)

/-! ## the getters -/

/-- **`spacing_after` returns exactly the blank run after the model, modulo zero-width tokens.**
If the store is `pre ++ m :: (Z₁ ++ R ++ Z₂ ++ rest)` where `m` is the model's last token, `Z₁`, `Z₂` are
zero-width tokens, `R` consists of `Newline`/`Whitespace` tokens and the scan stops at `rest`, the getter
returns the non-empty tokens of `R`, in order — nothing less, nothing more. -/
theorem spacing_get_after {pre z1 r z2 rest : List Tk} {m : Tk} (first : Nat)
    (hid : ∀ x ∈ pre, x.id ≠ m.id)
    (hz1 : ∀ t ∈ z1, t.isEmpty = true) (hr : ∀ t ∈ r, t.isBlankKind = true)
    (hz2 : ∀ t ∈ z2, t.isEmpty = true) (hs : Stops r rest) :
    getSpacing (pre ++ m :: (z1 ++ r ++ z2 ++ rest)) first m.id .after = ne r := by
  simp only [getSpacing, spacingAfter, splitAtId_append hid]
  exact findSpacing_layout hz1 hr hz2 hs

/-- **`spacing_before`**, the mirror image: store `(rest ++ Z₂ ++ R ++ Z₁) ++ m :: post` with `m` the model's
first token; the getter returns the non-empty tokens of `R` in document order. -/
theorem spacing_get_before {rest z2 r z1 post : List Tk} {m : Tk} (last : Nat)
    (hid : ∀ x ∈ rest ++ z2 ++ r ++ z1, x.id ≠ m.id)
    (hz1 : ∀ t ∈ z1, t.isEmpty = true) (hr : ∀ t ∈ r, t.isBlankKind = true)
    (hz2 : ∀ t ∈ z2, t.isEmpty = true) (hs : StopsEnd r rest) :
    getSpacing ((rest ++ z2 ++ r ++ z1) ++ m :: post) m.id last .before = ne r := by
  simp only [getSpacing, spacingBefore, splitAtId_append hid]
  have : (rest ++ z2 ++ r ++ z1).reverse = z1.reverse ++ r.reverse ++ z2.reverse ++ rest.reverse := by
    simp [List.append_assoc]
  rw [this, findSpacing_layout (by simpa using hz1) (by simpa using hr) (by simpa using hz2) (stopsEnd_reverse hs),
    ne_reverse, List.reverse_reverse]

/-- **Every store has that layout (maximality).**  Whatever follows the model's last token decomposes as zero-width
tokens, then a *maximal* run of blank-class tokens that starts with a non-empty one (or is empty), then a token
that stops the scan; and the getter's value is the non-empty part of that run.  Together with
`spacing_get_after` this characterises the getter completely. -/
theorem spacing_get_after_exists (store : List Tk) (first last : Nat) (h : ∃ t ∈ store, t.id = last) :
    ∃ pre m z r rest, store = pre ++ m :: (z ++ r ++ rest) ∧ m.id = last ∧ (∀ x ∈ pre, x.id ≠ last) ∧
      (∀ t ∈ z, t.isEmpty = true) ∧ (∀ t ∈ r, t.isBlankKind = true) ∧ Stops r rest ∧
      (∀ x, r.head? = some x → x.isEmpty = false) ∧
      getSpacing store first last .after = ne r ∧ textOf (getSpacing store first last .after) = textOf r := by
  obtain ⟨⟨pre, m, post⟩, hv⟩ := splitAtId_isSome h
  obtain ⟨hst, hm, hpre⟩ := splitAtId_some hv
  obtain ⟨z, r, rest, hl, hz, hr, hs, hh⟩ := layout_exists post
  have hg : getSpacing store first last .after = ne r := by
    simp only [getSpacing, spacingAfter, hv]
    have := findSpacing_layout (z2 := []) hz hr (by simp) hs
    simpa [hl] using this
  exact ⟨pre, m, z, r, rest, by rw [hst, hl], hm, hpre, hz, hr, hs, hh, hg, by rw [hg, textOf_ne]⟩

/-- The same for the `before` side (the run is found walking backwards from the model's first token). -/
theorem spacing_get_before_exists (store : List Tk) (first last : Nat) (h : ∃ t ∈ store, t.id = first) :
    ∃ rest r z m post, store = (rest ++ r ++ z) ++ m :: post ∧ m.id = first ∧ (∀ x ∈ rest ++ r ++ z, x.id ≠ first) ∧
      (∀ t ∈ z, t.isEmpty = true) ∧ (∀ t ∈ r, t.isBlankKind = true) ∧ StopsEnd r rest ∧
      (∀ x, r.getLast? = some x → x.isEmpty = false) ∧
      getSpacing store first last .before = ne r ∧ textOf (getSpacing store first last .before) = textOf r := by
  obtain ⟨⟨pre, m, post⟩, hv⟩ := splitAtId_isSome h
  obtain ⟨hst, hm, hpre⟩ := splitAtId_some hv
  obtain ⟨z, r, rest, hl, hz, hr, hs, hh⟩ := layout_exists pre.reverse
  have hpre' : pre = rest.reverse ++ r.reverse ++ z.reverse := by
    have := congrArg List.reverse hl
    simpa [List.append_assoc] using this
  have hs' : StopsEnd r.reverse rest.reverse := by
    rcases hs with rfl | ⟨x, tl, rfl, hb, he⟩
    · exact Or.inl rfl
    · refine Or.inr ⟨tl.reverse, x, by simp, hb, ?_⟩
      rcases he with he | he
      · exact Or.inl he
      · right; rw [ne_reverse]; intro h; exact he (by simpa using h)
  have hg : getSpacing store first last .before = ne r.reverse := by
    simp only [getSpacing, spacingBefore, hv]
    have := findSpacing_layout (z2 := []) hz hr (by simp) hs
    rw [hl]
    simp only [List.append_nil] at this
    rw [this, ne_reverse]
  refine ⟨rest.reverse, r.reverse, z.reverse, m, post, by rw [hst, hpre'], hm, by rw [← hpre']; exact hpre,
    by simpa using hz, by simpa using hr, hs', ?_, hg, by rw [hg, textOf_ne]⟩
  intro x hx
  apply hh x
  simpa [List.getLast?_reverse] using hx

/-! ## both sides see the same run -/

/-- **`spacing_sides` — the exact layout under which `a.spacing_after` and `b.spacing_before` are the same run.**
Let `a` be the last token of model A and `b` the first token of model B, with the gap between them of the form
`Z₁ ++ R ++ Z₂` (zero-width tokens, then `Newline`/`Whitespace` tokens, then zero-width tokens), and let both
end points stop the scan: neither `a` nor `b` is of blank class, and if `R` has no non-empty token both have
non-empty text.  Then both accessors return exactly the non-empty tokens of `R`. -/
theorem spacing_sides {pre z1 r z2 post : List Tk} {a b : Tk} (fa lb : Nat)
    (hida : ∀ x ∈ pre, x.id ≠ a.id)
    (hidb : ∀ x ∈ pre ++ a :: (z1 ++ r ++ z2), x.id ≠ b.id)
    (hz1 : ∀ t ∈ z1, t.isEmpty = true) (hr : ∀ t ∈ r, t.isBlankKind = true) (hz2 : ∀ t ∈ z2, t.isEmpty = true)
    (ha : a.isBlankKind = false ∧ (a.isEmpty = false ∨ ne r ≠ []))
    (hb : b.isBlankKind = false ∧ (b.isEmpty = false ∨ ne r ≠ [])) :
    getSpacing (pre ++ a :: (z1 ++ r ++ z2) ++ b :: post) fa a.id .after = ne r ∧
    getSpacing (pre ++ a :: (z1 ++ r ++ z2) ++ b :: post) b.id lb .before = ne r := by
  constructor
  · have h1 : pre ++ a :: (z1 ++ r ++ z2) ++ b :: post = pre ++ a :: (z1 ++ r ++ z2 ++ (b :: post)) := by simp
    rw [h1]
    exact spacing_get_after fa hida hz1 hr hz2 (Or.inr ⟨b, post, rfl, hb.1, hb.2⟩)
  · have h2 : pre ++ a :: (z1 ++ r ++ z2) = ((pre ++ [a]) ++ z1 ++ r ++ z2) := by simp
    rw [h2] at hidb ⊢
    exact spacing_get_before lb hidb hz2 hr hz1 (Or.inr ⟨pre, a, rfl, ha.1, ha.2⟩)

/-- Corollary in the form of the property: under that layout the two accessors agree. -/
theorem spacing_sides_eq {pre z1 r z2 post : List Tk} {a b : Tk} (fa lb : Nat)
    (hida : ∀ x ∈ pre, x.id ≠ a.id)
    (hidb : ∀ x ∈ pre ++ a :: (z1 ++ r ++ z2), x.id ≠ b.id)
    (hz1 : ∀ t ∈ z1, t.isEmpty = true) (hr : ∀ t ∈ r, t.isBlankKind = true) (hz2 : ∀ t ∈ z2, t.isEmpty = true)
    (ha : a.isBlankKind = false ∧ (a.isEmpty = false ∨ ne r ≠ []))
    (hb : b.isBlankKind = false ∧ (b.isEmpty = false ∨ ne r ≠ [])) :
    getSpacing (pre ++ a :: (z1 ++ r ++ z2) ++ b :: post) fa a.id .after =
    getSpacing (pre ++ a :: (z1 ++ r ++ z2) ++ b :: post) b.id lb .before := by
  obtain ⟨h1, h2⟩ := spacing_sides fa lb hida hidb hz1 hr hz2 ha hb
  rw [h1, h2]

/-- **`spacing_sides_iff` — exactness.**  Take both end points solid (non-empty text, not of blank class; true for every
model that does not begin/end with a zero-width token) and write the gap as `Z₁ ++ core ++ Z₂` with the zero-width
tokens at its two ends stripped (`core` is empty or starts and ends with a non-empty token); ids distinct.  Then
`a.spacing_after = b.spacing_before` **iff** `core` consists of `Newline`/`Whitespace` tokens only (both return the
non-empty ones), or `core` starts and ends with a token that is not of blank class (e.g. a comma, a comment — both
return nothing).  In every other layout the two accessors differ. -/
theorem spacing_sides_iff {pre z1 core z2 post : List Tk} {a b : Tk} (fa lb : Nat)
    (hida : ∀ x ∈ pre, x.id ≠ a.id)
    (hidb : ∀ x ∈ pre ++ a :: (z1 ++ core ++ z2), x.id ≠ b.id)
    (hz1 : ∀ t ∈ z1, t.isEmpty = true) (hz2 : ∀ t ∈ z2, t.isEmpty = true)
    (hh : ∀ h, core.head? = some h → h.isEmpty = false) (hl : ∀ l, core.getLast? = some l → l.isEmpty = false)
    (hnd : DistinctIds core)
    (ha : a.isBlankKind = false ∧ a.isEmpty = false) (hb : b.isBlankKind = false ∧ b.isEmpty = false) :
    getSpacing (pre ++ a :: (z1 ++ core ++ z2) ++ b :: post) fa a.id .after =
      getSpacing (pre ++ a :: (z1 ++ core ++ z2) ++ b :: post) b.id lb .before ↔
    ((∀ t ∈ core, t.isBlankKind = true) ∨
      ∃ h l, core.head? = some h ∧ core.getLast? = some l ∧ h.isBlankKind = false ∧ l.isBlankKind = false) := by
  have e1 : getSpacing (pre ++ a :: (z1 ++ core ++ z2) ++ b :: post) fa a.id .after =
      ne (core.takeWhile Tk.isBlankKind) := by
    have h1 : pre ++ a :: (z1 ++ core ++ z2) ++ b :: post = pre ++ a :: ((z1 ++ core ++ z2) ++ b :: post) := by simp
    rw [h1]
    simp only [getSpacing, spacingAfter, splitAtId_append hida]
    rw [findSpacing_solid_stop _ _ hb.1 hb.2, findSpacing_core hz1 hz2 hh]
  have e2 : getSpacing (pre ++ a :: (z1 ++ core ++ z2) ++ b :: post) b.id lb .before =
      (ne (core.reverse.takeWhile Tk.isBlankKind)).reverse := by
    simp only [getSpacing, spacingBefore, splitAtId_append hidb]
    have h2 : (pre ++ a :: (z1 ++ core ++ z2)).reverse = (z2.reverse ++ core.reverse ++ z1.reverse) ++ a :: pre.reverse := by
      simp [List.append_assoc]
    rw [h2, findSpacing_solid_stop _ _ ha.1 ha.2,
      findSpacing_core (by simpa using hz2) (by simpa using hz1) (by simpa [List.head?_reverse] using hl)]
  rw [e1, e2]
  exact scans_agree_iff hh hl hnd

/-! ## the setters -/

theorem scanSet_mem {l new : List Tk} {t : Tk} (h : t ∈ scanSet l new) : t ∈ l ∨ t ∈ new := by
  obtain ⟨A, old, Z2, rest, hl, hs, _⟩ := scanSet_shape l new
  rw [hs] at h
  rw [hl]
  simp only [List.mem_append] at h ⊢
  rcases h with ((h | h) | h) | h
  · exact Or.inl (Or.inl (Or.inl (Or.inl h)))
  · exact Or.inr h
  · exact Or.inl (Or.inl (Or.inr h))
  · exact Or.inl (Or.inr h)

/-- **`spacing_set_frame`.**  Assigning spacing replaces one contiguous segment `old` of the store by the new tokens
and touches nothing else: `store = A ++ old ++ B`, `store' = A ++ new ++ B`; `old` consists of blank-class tokens
only, and its non-empty members are exactly what the getter returned before. -/
theorem spacing_set_frame (store new : List Tk) (first last : Nat) (side : Side)
    (h : ∃ t ∈ store, t.id = anchor first last side) :
    ∃ A old B, store = A ++ old ++ B ∧ setSpacing store first last side new = A ++ new ++ B ∧
      (∀ t ∈ old, t.isBlankKind = true) ∧ ne old = getSpacing store first last side := by
  cases side with
  | after =>
    simp only [anchor] at h
    obtain ⟨⟨pre, m, post⟩, hv⟩ := splitAtId_isSome h
    obtain ⟨hst, _, _⟩ := splitAtId_some hv
    obtain ⟨A, old, Z2, rest, hl, hs, _, hold, _, _, hne⟩ := scanSet_shape post new
    refine ⟨pre ++ m :: A, old, Z2 ++ rest, ?_, ?_, hold, ?_⟩
    · rw [hst, hl]; simp
    · simp only [setSpacing, setAfter, hv, hs]; simp
    · simp only [getSpacing, spacingAfter, hv]; exact hne
  | before =>
    simp only [anchor] at h
    obtain ⟨⟨pre, m, post⟩, hv⟩ := splitAtId_isSome h
    obtain ⟨hst, _, _⟩ := splitAtId_some hv
    obtain ⟨A, old, Z2, rest, hl, hs, _, hold, _, _, hne⟩ := scanSet_shape pre.reverse new.reverse
    have hpre : pre = rest.reverse ++ Z2.reverse ++ old.reverse ++ A.reverse := by
      have := congrArg List.reverse hl
      simpa [List.append_assoc] using this
    refine ⟨rest.reverse ++ Z2.reverse, old.reverse, A.reverse ++ m :: post, ?_, ?_, by simpa using hold, ?_⟩
    · rw [hst, hpre]; simp
    · simp only [setSpacing, setBefore, hv, hs]; simp
    · simp only [getSpacing, spacingBefore, hv]; rw [← hne, ne_reverse]

/-- All tokens that are not `Newline`/`Whitespace` keep identity, text and order. -/
theorem spacing_set_nonblank_tokens (store new : List Tk) (first last : Nat) (side : Side)
    (h : ∃ t ∈ store, t.id = anchor first last side) (hnew : ∀ t ∈ new, t.isBlankKind = true) :
    (setSpacing store first last side new).filter (fun t => !t.isBlankKind) = store.filter (fun t => !t.isBlankKind) := by
  obtain ⟨A, old, B, h1, h2, hold, _⟩ := spacing_set_frame store new first last side h
  have e1 : old.filter (fun t => !t.isBlankKind) = [] := by
    simp only [List.filter_eq_nil_iff]; intro t ht; simp [hold t ht]
  have e2 : new.filter (fun t => !t.isBlankKind) = [] := by
    simp only [List.filter_eq_nil_iff]; intro t ht; simp [hnew t ht]
  rw [h2, h1]; simp [List.filter_append, e1, e2]

/-- The printed text changes only by replacing the old run's text by the new text, in place. -/
theorem spacing_set_text (store new : List Tk) (first last : Nat) (side : Side)
    (h : ∃ t ∈ store, t.id = anchor first last side) :
    ∃ a b, textOf store = a ++ textOf (getSpacing store first last side) ++ b ∧
      textOf (setSpacing store first last side new) = a ++ textOf new ++ b := by
  obtain ⟨A, old, B, h1, h2, _, hne⟩ := spacing_set_frame store new first last side h
  refine ⟨textOf A, textOf B, ?_, ?_⟩
  · rw [← hne, textOf_ne]; conv => lhs; rw [h1]
    simp [textOf_append]
  · rw [h2]; simp [textOf_append]

/-- `length' = length − |old| + |new|` in characters (stated without subtraction). -/
theorem spacing_set_length (store new : List Tk) (first last : Nat) (side : Side)
    (h : ∃ t ∈ store, t.id = anchor first last side) :
    (textOf (setSpacing store first last side new)).length + (textOf (getSpacing store first last side)).length =
      (textOf store).length + (textOf new).length := by
  obtain ⟨a, b, h1, h2⟩ := spacing_set_text store new first last side h
  rw [h1, h2]; simp; omega

/-- If blank-class tokens contain only blank characters (true for `Newline`/`Whitespace` lexemes and for
everything `_text_to_tokens` builds), the non-blank characters of the document and their order do not change. -/
theorem spacing_set_nonblank_chars (store new : List Tk) (first last : Nat) (side : Side)
    (h : ∃ t ∈ store, t.id = anchor first last side)
    (hstore : ∀ t ∈ store, t.isBlankKind = true → ∀ c ∈ t.text, isBlankChar c = true)
    (hnew : ∀ t ∈ new, ∀ c ∈ t.text, isBlankChar c = true) :
    (textOf (setSpacing store first last side new)).filter (fun c => !isBlankChar c) =
      (textOf store).filter (fun c => !isBlankChar c) := by
  obtain ⟨A, old, B, h1, h2, hold, _⟩ := spacing_set_frame store new first last side h
  have blank : ∀ l : List Tk, (∀ t ∈ l, ∀ c ∈ t.text, isBlankChar c = true) →
      (textOf l).filter (fun c => !isBlankChar c) = [] := by
    intro l hl
    induction l with
    | nil => rfl
    | cons t l ih =>
      rw [textOf_cons, List.filter_append, ih (fun x hx => hl x (by simp [hx]))]
      simp only [List.append_nil, List.filter_eq_nil_iff]
      intro c hc; simp [hl t (by simp) c hc]
  have e1 := blank old (fun t ht => hstore t (by rw [h1]; simp [ht]) (hold t ht))
  have e2 := blank new hnew
  rw [h2]; conv => rhs; rw [h1]
  simp [textOf_append, List.filter_append, e1, e2]

/-! ## histories of assignments -/

/-- One assignment of a history: the model's first / last token ids, the side, the new blank tokens. -/
abbrev SpOp := Nat × Nat × Side × List Tk

/-- The store after a history of spacing assignments. -/
def runSpacing (store : List Tk) (ops : List SpOp) : List Tk :=
  ops.foldl (fun s op => setSpacing s op.1 op.2.1 op.2.2.1 op.2.2.2) store

/-- **Any history** of spacing assignments - on any models, either side, in any order, old runs empty or not - leaves
every token that is not `Newline`/`Whitespace` in place with its identity, text and order, provided each assignment is
anchored at a non-blank token of the document (a model's first / last token) and writes blank-class tokens only.  (The
anchors stay in the store *because* of the invariant, which is why the statement is about whole histories.) -/
theorem spacing_history_nonblank_tokens (store : List Tk) (ops : List SpOp)
    (hanch : ∀ op ∈ ops, ∃ t ∈ store, t.isBlankKind = false ∧ t.id = anchor op.1 op.2.1 op.2.2.1)
    (hnew : ∀ op ∈ ops, ∀ t ∈ op.2.2.2, t.isBlankKind = true) :
    (runSpacing store ops).filter (fun t => !t.isBlankKind) = store.filter (fun t => !t.isBlankKind) := by
  induction ops generalizing store with
  | nil => rfl
  | cons op ops ih =>
    obtain ⟨t, ht, _, hid⟩ := hanch op (by simp)
    have hstep := spacing_set_nonblank_tokens store op.2.2.2 op.1 op.2.1 op.2.2.1 ⟨t, ht, hid⟩ (hnew op (by simp))
    have hrun : runSpacing store (op :: ops) = runSpacing (setSpacing store op.1 op.2.1 op.2.2.1 op.2.2.2) ops := rfl
    rw [hrun, ih _ ?_ (fun o ho => hnew o (by simp [ho])), hstep]
    intro o ho
    obtain ⟨u, hu, hub, huid⟩ := hanch o (by simp [ho])
    refine ⟨u, ?_, hub, huid⟩
    have : u ∈ store.filter (fun t => !t.isBlankKind) := by simp [hu, hub]
    rw [← hstep] at this
    exact (List.mem_filter.1 this).1

/-- ... and the non-blank characters of the printed document, in order, are those of the start (same side conditions as
`spacing_set_nonblank_chars`, for every step). -/
theorem spacing_history_nonblank_chars (store : List Tk) (ops : List SpOp)
    (hanch : ∀ op ∈ ops, ∃ t ∈ store, t.isBlankKind = false ∧ t.id = anchor op.1 op.2.1 op.2.2.1)
    (hnew : ∀ op ∈ ops, ∀ t ∈ op.2.2.2, t.isBlankKind = true ∧ ∀ c ∈ t.text, isBlankChar c = true)
    (hstore : ∀ t ∈ store, t.isBlankKind = true → ∀ c ∈ t.text, isBlankChar c = true) :
    (textOf (runSpacing store ops)).filter (fun c => !isBlankChar c) = (textOf store).filter (fun c => !isBlankChar c) := by
  induction ops generalizing store with
  | nil => rfl
  | cons op ops ih =>
    obtain ⟨t, ht, _, hid⟩ := hanch op (by simp)
    have hA : ∃ t ∈ store, t.id = anchor op.1 op.2.1 op.2.2.1 := ⟨t, ht, hid⟩
    have hstep := spacing_set_nonblank_tokens store op.2.2.2 op.1 op.2.1 op.2.2.1 hA (fun x hx => (hnew op (by simp) x hx).1)
    have hchars := spacing_set_nonblank_chars store op.2.2.2 op.1 op.2.1 op.2.2.1 hA hstore (fun x hx => (hnew op (by simp) x hx).2)
    have hrun : runSpacing store (op :: ops) = runSpacing (setSpacing store op.1 op.2.1 op.2.2.1 op.2.2.2) ops := rfl
    rw [hrun, ih _ ?_ (fun o ho => hnew o (by simp [ho])) ?_, hchars]
    · intro o ho
      obtain ⟨u, hu, hub, huid⟩ := hanch o (by simp [ho])
      refine ⟨u, ?_, hub, huid⟩
      have : u ∈ store.filter (fun t => !t.isBlankKind) := by simp [hu, hub]
      rw [← hstep] at this
      exact (List.mem_filter.1 this).1
    · -- blank tokens of the new store are old blank tokens or new ones
      obtain ⟨A, old, B, h1, h2, _, _⟩ := spacing_set_frame store op.2.2.2 op.1 op.2.1 op.2.2.1 hA
      intro x hx hxb
      rw [h2] at hx
      simp only [List.mem_append] at hx
      rcases hx with (hx | hx) | hx
      · exact hstore x (by rw [h1]; simp [hx]) hxb
      · exact (hnew op (by simp) x hx).2
      · exact hstore x (by rw [h1]; simp [hx]) hxb

/-! ## reading back -/

/-- **`spacing_readback` (tokens).**  A non-empty replacement made of non-empty `Newline`/`Whitespace` tokens (whose ids
are not the anchor's) is exactly what the getter returns afterwards.  No layout hypothesis is needed: the new
tokens sit directly after the zero-width tokens the scan skips (or directly next to the model), and whatever
follows them stops the scan or is zero-width blank.  (For the *empty* replacement this is false — the scan may
then run into blank tokens beyond a zero-width token — which is why the property excepts it.) -/
theorem spacing_readback_tokens (store new : List Tk) (first last : Nat) (side : Side)
    (h : ∃ t ∈ store, t.id = anchor first last side) (hne : new ≠ [])
    (hnew : ∀ t ∈ new, t.isBlankKind = true ∧ t.isEmpty = false)
    (hid : ∀ t ∈ new, t.id ≠ anchor first last side) :
    getSpacing (setSpacing store first last side new) first last side = new := by
  cases side with
  | after =>
    simp only [anchor] at h
    obtain ⟨⟨pre, m, post⟩, hv⟩ := splitAtId_isSome h
    obtain ⟨_, hm, hpre⟩ := splitAtId_some hv
    simp only [getSpacing, setSpacing, setAfter, hv, spacingAfter]
    rw [← hm] at hpre ⊢
    rw [splitAtId_append hpre]
    exact findSpacing_scanSet post new hne hnew
  | before =>
    simp only [anchor] at h
    obtain ⟨⟨pre, m, post⟩, hv⟩ := splitAtId_isSome h
    obtain ⟨_, hm, hpre⟩ := splitAtId_some hv
    simp only [anchor] at hid
    simp only [getSpacing, setSpacing, setBefore, hv, spacingBefore]
    have hmem : ∀ x ∈ (scanSet pre.reverse new.reverse).reverse, x.id ≠ m.id := by
      intro x hx
      rw [hm]
      rcases scanSet_mem (List.mem_reverse.1 hx) with h1 | h1
      · exact hpre x (List.mem_reverse.1 h1)
      · exact hid x (List.mem_reverse.1 h1)
    rw [← hm, splitAtId_append hmem]
    simp only []
    rw [List.reverse_reverse,
      findSpacing_scanSet pre.reverse new.reverse (by simpa using hne) (by simpa using hnew), List.reverse_reverse]

/-- **`textToTokens_text`.**  For a string of `([ \t]+|\r*\n)*` the tokens built by `_text_to_tokens` spell the string
back.  (Outside that language `re.findall` silently skips characters, e.g. a `\r` not followed by `\n`.) -/
theorem textToTokens_text (n : Nat) (s : Str) (h : spacingLang s = true) : textOf (textToTokens n s) = s := by
  rw [textToTokens, textOf_mkTokens]
  simpa [modePrefix] using scanPieces_text s .clean h

/-- The same with the language given as the regular expression itself. -/
theorem textToTokens_text_regex (n : Nat) (s : Str) (h : SpLang s) : textOf (textToTokens n s) = s :=
  textToTokens_text n s (spacingLang_of_SpLang h)

/-- `spacingLang` is that regular language. -/
theorem spacingLang_iff_regex (s : Str) : spacingLang s = true ↔ SpLang s :=
  ⟨SpLang_of_spacingLang, spacingLang_of_SpLang⟩

/-- **`spacing_readback`.**  `new ≠ ""` and `new ∈ ([ \t]+|\r*\n)*`: after `x.spacing_<side> = new` the getter
returns `new`.  `fresh` is the first id given to the created tokens; it only has to exceed the anchor's id. -/
theorem spacing_readback (store : List Tk) (first last : Nat) (side : Side) (fresh : Nat) (s : Str)
    (h : ∃ t ∈ store, t.id = anchor first last side) (hfresh : anchor first last side < fresh)
    (hs : s ≠ []) (hl : spacingLang s = true) :
    getText (setText store first last side fresh s) first last side = s := by
  have htok := textToTokens_tokens fresh s
  have hne : textToTokens fresh s ≠ [] := by
    intro h0
    have := textToTokens_text fresh s hl
    rw [h0] at this
    exact hs this.symm
  rw [getText, setText, spacing_readback_tokens store _ first last side h hne
    (fun t ht => ⟨(htok t ht).1, (htok t ht).2.1⟩) (fun t ht => by have := (htok t ht).2.2; omega)]
  exact textToTokens_text fresh s hl

/-- What `_text_to_tokens` builds is always a list of non-empty `Newline`/`Whitespace` tokens, so the frame
theorems apply to every string assignment (hypothesis `hnew` of `spacing_set_nonblank_tokens`). -/
theorem textToTokens_blank (n : Nat) (s : Str) : ∀ t ∈ textToTokens n s, t.isBlankKind = true ∧ t.isEmpty = false :=
  fun t ht => ⟨(textToTokens_tokens n s t ht).1, (textToTokens_tokens n s t ht).2.1⟩

/-! ## non-vacuity: concrete stores -/

private def D (i : Nat) (s : String) : Tk := ⟨i, .other, s.toList⟩
private def W (i : Nat) (s : String) : Tk := ⟨i, .whitespace, s.toList⟩
private def N (i : Nat) (s : String) : Tk := ⟨i, .newline, s.toList⟩
private def Z (i : Nat) : Tk := ⟨i, .other, []⟩

/-- `open Assets:Foo` `Eol` `DedentMark` `\n` `\n` `\t` `\n` `2000-01-02` … (the example of docs/special/spacing.md) -/
private def doc : List Tk :=
  [D 1 "2000-01-01", W 2 " ", D 3 "open", W 4 " ", D 5 "Assets:Foo", Z 6, Z 7, N 8 "\n", N 9 "\n", W 10 "\t", N 11 "\n",
   D 12 "2000-01-02", D 13 "close"]

example : getText doc 1 7 .after = "\n\n\t\n".toList := by decide
example : getText doc 12 13 .before = "\n\n\t\n".toList := by decide
example : getSpacing doc 1 7 .after = getSpacing doc 12 13 .before := by decide
example : getText doc 1 5 .after = "\n\n\t\n".toList := by decide   -- `Account.spacing_after` skips Eol, DedentMark
example : getText doc 6 6 .before = [] := by decide                 -- `Eol.spacing_before`: the account stops the scan
/-- the hypotheses of `spacing_sides` hold for `open`/`close` in `doc` (a = DedentMark 7, b = Date 12) -/
example : getSpacing doc 1 7 .after = ne [N 8 "\n", N 9 "\n", W 10 "\t", N 11 "\n"] :=
  (spacing_sides (pre := [D 1 "2000-01-01", W 2 " ", D 3 "open", W 4 " ", D 5 "Assets:Foo", Z 6]) (a := Z 7)
    (z1 := []) (r := [N 8 "\n", N 9 "\n", W 10 "\t", N 11 "\n"]) (z2 := []) (b := D 12 "2000-01-02") (post := [D 13 "close"])
    1 13 (by decide) (by decide) (by decide) (by decide) (by decide) (by decide) (by decide)).1
example : textOf (setText doc 12 13 .before 100 "\n\n".toList) =
    "2000-01-01 open Assets:Foo\n\n2000-01-02close".toList := by decide
example : getText (setText doc 12 13 .before 100 "\r\n  ".toList) 12 13 .before = "\r\n  ".toList := by decide
example : (setText doc 12 13 .after 100 " ".toList).map (·.id) = [1, 2, 3, 4, 5, 6, 7, 8, 9, 10, 11, 12, 13, 100] := by decide
example : (setText doc 1 1 .after 100 "\t \n".toList).map (·.id) = [1, 100, 101, 3, 4, 5, 6, 7, 8, 9, 10, 11, 12, 13] := by
  decide
/-- empty run: the new tokens go next to the model, before the zero-width tokens -/
example : (setText [D 1 "a", Z 2, D 3 "b"] 1 1 .after 9 " ".toList).map (·.id) = [1, 9, 2, 3] := by decide
example : (setText [D 1 "a", Z 2, D 3 "b"] 3 3 .before 9 " ".toList).map (·.id) = [1, 2, 9, 3] := by decide
/-- where the two sides differ: trailing blank before the end of line — `* ` `Eol` `\n` (zero-width `Eol` inside the run) -/
example : getText [D 1 "*", W 2 " ", Z 3, N 4 "\n", D 5 "x"] 1 1 .after = " ".toList ∧
    getText [D 1 "*", W 2 " ", Z 3, N 4 "\n", D 5 "x"] 5 5 .before = "\n".toList := by decide
/-- where the two sides differ: zero-width end point — `Eol` directly followed by `DedentMark` -/
example : getText [D 1 "x", Z 2, Z 3, N 4 "\n"] 2 2 .after = "\n".toList ∧
    getText [D 1 "x", Z 2, Z 3, N 4 "\n"] 3 3 .before = [] := by decide
/-- `spacing_sides_iff`: `USD` `,` `<blank>` `EUR` — the core starts with a comma and ends with a blank: the sides differ -/
example : getSpacing [D 1 "USD", D 2 ",", W 3 " ", D 4 "EUR"] 1 1 .after = [] ∧
    getSpacing [D 1 "USD", D 2 ",", W 3 " ", D 4 "EUR"] 4 4 .before = [W 3 " "] := by decide
/-- `spacing_sides_iff`, second alternative: `USD` `,` `EUR` — the core starts and ends with the comma: both return nothing -/
example : getSpacing [D 1 "USD", D 2 ",", D 4 "EUR"] 1 1 .after = getSpacing [D 1 "USD", D 2 ",", D 4 "EUR"] 4 4 .before := by
  decide
/-- the empty assignment need not read back: `* ` `Eol` `\n` -/
example : getText (setText [D 1 "*", W 2 " ", Z 3, N 4 "\n", D 5 "x"] 1 1 .after 9 []) 1 1 .after = "\n".toList := by
  decide
example : (textToTokens 0 " \t\r\r\n\n  ".toList).map (fun t => (t.kind, String.ofList t.text)) =
    [(.whitespace, " \t"), (.newline, "\r\r\n"), (.newline, "\n"), (.whitespace, "  ")] := by decide
/-- characters matching neither alternative are skipped by `findall` (a `\r` not followed by `\n`, a letter) -/
example : (textToTokens 0 "\r\r x\r\n".toList).map (fun t => (t.kind, String.ofList t.text)) =
    [(.whitespace, " "), (.newline, "\r\n")] := by decide
example : spacingLang " \t\r\r\n\n  ".toList = true ∧ spacingLang "\r \n".toList = false := by decide

/-- A three-step history on the example document meets the hypotheses of `spacing_history_nonblank_tokens` (anchors 5 / 12 / 1
are non-blank tokens of the start document, every step writes blank tokens), and its non-blank tokens are untouched. -/
private def hist : List SpOp :=
  [(1, 5, .after, [N 100 "\n"]), (12, 13, .before, [W 101 "  ", N 102 "\n"]), (1, 1, .after, [])]
example : ∀ op ∈ hist, ∃ t ∈ doc, t.isBlankKind = false ∧ t.id = anchor op.1 op.2.1 op.2.2.1 := by decide
example : ∀ op ∈ hist, ∀ t ∈ op.2.2.2, t.isBlankKind = true := by decide
example : (runSpacing doc hist).filter (fun t => !t.isBlankKind) = doc.filter (fun t => !t.isBlankKind) := by decide

end Autobean.C17
