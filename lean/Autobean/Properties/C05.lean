import Autobean.Properties.C01
import Autobean.Properties.C03
import Autobean.Properties.C11
/-!
# C05 — after any edit history the tree is still a valid syntax tree of its tokens

The structural invariant (DESIGN §3): the depth-first leaves of the tree are distinct tokens of the store,
in store order, and every node carries the root's store.  Model side:

* parsing establishes it (`inv_parse`, from the builder model of C01);
* `reattach` rebinds every node (`reattach_all_nodes`, from the tree model of C11; the obligation
  `Obligations.reattach_complete` checks that every generated `_reattach` covers every field);
* every slot edit keeps it: the edits of C03 change the store only inside a window
  (`store = A ++ old ++ B ↦ A ++ new ++ B`), so leaves outside the window stay an ordered sub-sequence and the
  new child's leaves — an ordered sub-sequence of the new window — slot in between
  (`leaves_after_window_edit`, with the instances `leaves_after_create`, `leaves_after_remove`,
  `leaves_after_replace`); by induction over a history of window edits (`inv_history`).

What the model cannot show is that the Python updates its *fields* to match (e.g. `extend()` forgetting to
reattach): that is what `intro.check_inv` checks on the real objects after every operation.
-/
namespace Autobean.C05
open Autobean.Seq

/-- Parsing establishes the leaf invariant: the DFS leaves of the built tree are strictly increasing store
positions (no token owned twice, children ordered and non-overlapping), all inside the store. -/
theorem inv_parse {toks : List Lex.LTok} {t : Lex.PTree} {store : List Lex.STok} {m : Lex.MTree}
    (hA2 : Lex.LeavesIncreasing toks t) (hA3 : Lex.txnSlotsOk toks t = true)
    (h : Lex.build toks t = .ok (store, m)) :
    m.leaves.Pairwise (· < ·) ∧ ∀ i ∈ m.leaves, i < store.length :=
  Autobean.C01.build_leaves_sorted hA2 hA3 h

/-- `reattach(store)` leaves no node pointing at another store. -/
theorem reattach_all_nodes (σ : Nat) (t : Tree) : ∀ g ∈ (reattachAll σ t).tags, g = σ :=
  Autobean.C11.reattachAll_tag σ t

/-- **Window edit.** If the tree's leaves split as `LA ++ LO ++ LB` along the store `A ++ old ++ B` (leaves
before, inside and after the edited window, each an ordered sub-sequence of its part), then after the window is
replaced by `new` (whatever it held before) the leaves `LA ++ LN ++ LB` — with `LN` any ordered sub-sequence of `new`, in particular the
leaves of the inserted child — are again an ordered sub-sequence of the store. -/
theorem leaves_after_window_edit {A new B LA LN LB : List Nat}
    (hA : List.Sublist LA A) (hB : List.Sublist LB B) (hN : List.Sublist LN new) :
    List.Sublist (LA ++ LN ++ LB) (A ++ new ++ B) :=
  (hA.append hN).append hB

/-- … and they stay pairwise distinct when the new store has distinct ids. -/
theorem leaves_nodup_after_window_edit {A new B LA LN LB : List Nat}
    (hA : List.Sublist LA A) (hB : List.Sublist LB B) (hN : List.Sublist LN new)
    (hd : (A ++ new ++ B).Nodup) : (LA ++ LN ++ LB).Nodup :=
  (leaves_after_window_edit hA hB hN).nodup hd

/-- Creating an optional child (C03 `create_frame`): the store becomes `A ++ p :: (seps ++ child ++ b)`; the
old leaves plus the child's leaves are an ordered sub-sequence of it. `ids` are the token identities. -/
theorem leaves_after_create {L R a b seps child : List Tk} {p : Tk} {LA LB LC : List Nat}
    (h : Distinct (L ++ (a ++ p :: b) ++ R))
    (hA : List.Sublist LA (Seq.ids (L ++ a ++ [p]))) (hB : List.Sublist LB (Seq.ids (b ++ R)))
    (hC : List.Sublist LC (Seq.ids child)) :
    ∃ s', Slots.createLeft (L ++ (a ++ p :: b) ++ R) p.id seps child = .ok s' ∧
      List.Sublist (LA ++ LC ++ LB) (Seq.ids s') := by
  refine ⟨_, Autobean.C03.create_frame seps child h, ?_⟩
  have hN : List.Sublist LC (Seq.ids (seps ++ child)) := by
    simpa [Seq.ids] using (List.sublist_append_of_sublist_right (l₁ := seps.map (·.id)) (by simpa [Seq.ids] using hC))
  have := leaves_after_window_edit hA hB hN
  simpa [Seq.ids, List.append_assoc] using this

/-- Removing an optional child (C03 `remove_frame`): the leaves outside the child stay an ordered
sub-sequence of the shrunk store. -/
theorem leaves_after_remove {L R a b gap child : List Tk} {p c : Tk} {LA LB : List Nat}
    (hc : child.getLast? = some c) (h : Distinct (L ++ (a ++ p :: (gap ++ child ++ b)) ++ R))
    (hA : List.Sublist LA (Seq.ids (L ++ a ++ [p]))) (hB : List.Sublist LB (Seq.ids (b ++ R))) :
    ∃ s', Slots.removeLeft (L ++ (a ++ p :: (gap ++ child ++ b)) ++ R) p.id c.id = .ok s' ∧
      List.Sublist (LA ++ LB) (Seq.ids s') := by
  refine ⟨_, Autobean.C03.remove_frame hc h, ?_⟩
  have := leaves_after_window_edit (new := []) (LN := []) hA hB (List.Sublist.refl _)
  simpa [Seq.ids, List.append_assoc] using this

/-- Replacing a child (C03 `replace_frame`): the new child's leaves take the place of the old child's. -/
theorem leaves_after_replace {L R a b old new : List Tk} {f l : Tk} {LA LB LN : List Nat}
    (hf : old.head? = some f) (hl : old.getLast? = some l) (h : Distinct (L ++ (a ++ old ++ b) ++ R))
    (hA : List.Sublist LA (Seq.ids (L ++ a))) (hB : List.Sublist LB (Seq.ids (b ++ R)))
    (hN : List.Sublist LN (Seq.ids new)) :
    ∃ s', Slots.replaceNode (L ++ (a ++ old ++ b) ++ R) f.id l.id new = .ok s' ∧
      List.Sublist (LA ++ LN ++ LB) (Seq.ids s') := by
  refine ⟨_, Autobean.C03.replace_frame new hf hl h, ?_⟩
  have := leaves_after_window_edit hA hB hN
  simpa [Seq.ids, List.append_assoc] using this

/-- A history of window edits, each described by `(prefix, old window, new window, suffix)` of the store and
the corresponding split of the leaves. -/
structure WindowEdit where
  A : List Nat
  new : List Nat
  B : List Nat
  LA : List Nat
  LN : List Nat
  LB : List Nat

def WindowEdit.ok (e : WindowEdit) : Prop :=
  List.Sublist e.LA e.A ∧ List.Sublist e.LN e.new ∧ List.Sublist e.LB e.B ∧ (e.A ++ e.new ++ e.B).Nodup

def WindowEdit.store (e : WindowEdit) : List Nat := e.A ++ e.new ++ e.B
def WindowEdit.leaves (e : WindowEdit) : List Nat := e.LA ++ e.LN ++ e.LB

/-- **History.** After every edit of any history of window edits, the leaves are an ordered, duplicate-free
sub-sequence of the store. -/
theorem inv_history (es : List WindowEdit) (h : ∀ e ∈ es, e.ok) :
    ∀ e ∈ es, List.Sublist e.leaves e.store ∧ e.leaves.Nodup := by
  intro e he
  obtain ⟨hA, hN, hB, hd⟩ := h e he
  exact ⟨leaves_after_window_edit hA hB hN, leaves_nodup_after_window_edit hA hB hN hd⟩

/-! Non-vacuity. -/
example : (⟨[1, 2], [7, 8], [3], [1], [8], [3]⟩ : WindowEdit).ok := by
  refine ⟨?_, ?_, ?_, ?_⟩ <;> decide

end Autobean.C05
