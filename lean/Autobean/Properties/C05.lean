import Autobean.Properties.C01
import Autobean.Properties.C03
import Autobean.Properties.C11
import Autobean.Proofs.TreeOpsSpans
/-!
# C05 — after any edit history the tree is still a valid syntax tree of its tokens

The structural invariant (DESIGN §3): the depth-first leaves of the tree are distinct tokens of the store,
in store order, and every node carries the root's store.  Model side:

* parsing establishes it (`inv_parse`, from the builder model of C01);
* `reattach` rebinds every node (`reattach_all_nodes`, from the tree model of C11; the obligation
  `Obligations.reattach_complete` checks that every generated `_reattach` covers every field);
* every slot edit keeps it: the edits of C03 change the store only inside a window
  (`store = A ++ old ++ B ↦ A ++ new ++ B`), so leaves outside the window stay an ordered sub-sequence and the
  new child's leaves — an ordered sub-sequence of the new window — slot in between
  (`leaves_after_window_edit`, with the instances `leaves_after_create`, `leaves_after_remove`,
  `leaves_after_replace`); by induction over a history of window edits (`inv_history`).

The second half of the file (`## Tree level`) states the property on the TREE itself: a document is a store
together with a rose tree whose fields are edited in lock-step with the store (`Model/TreeOps.lean`:
`replaceChild`, `createOptL/R`, `removeOptL/R`, `insertItem`, `extendItems`, `removeItems`, `popItem`, each a
(store edit, field edit, reattach) triple as in `properties.py` / `fields.py`), the invariant is `DInv`, and it is
kept by every edit and every history (`dinv_history`); a popped node is a complete document of its own
(`dinv_popItem`); an `extend()` that forgets the reattach breaks exactly the tag clause
(`extend_without_reattach_breaks`, `no_reattach_iff`).

What the model still cannot show is that the *generated* Python classes update the same fields the model
updates: that is what `intro.check_inv` checks on the real objects after every operation, and
`Obligations.reattach_complete` / `pivots_canonical` on the generated tables.
-/
namespace Autobean.C05
open Autobean.Seq

/-- Parsing establishes the leaf invariant: the DFS leaves of the built tree are strictly increasing store
positions (no token owned twice, children ordered and non-overlapping), all inside the store. -/
theorem inv_parse {toks : List Lex.LTok} {t : Lex.PTree} {store : List Lex.STok} {m : Lex.MTree}
    (hA2 : Lex.LeavesIncreasing toks t) (hA3 : Lex.txnSlotsOk toks t = true)
    (h : Lex.build toks t = .ok (store, m)) :
    m.leaves.Pairwise (· < ·) ∧ ∀ i ∈ m.leaves, i < store.length :=
  Autobean.C01.build_leaves_sorted hA2 hA3 h

/-- `reattach(store)` leaves no node pointing at another store. -/
theorem reattach_all_nodes (σ : Nat) (t : Tree) : ∀ g ∈ (reattachAll σ t).tags, g = σ :=
  Autobean.C11.reattachAll_tag σ t

/-- **Window edit.** If the tree's leaves split as `LA ++ LO ++ LB` along the store `A ++ old ++ B` (leaves
before, inside and after the edited window, each an ordered sub-sequence of its part), then after the window is
replaced by `new` (whatever it held before) the leaves `LA ++ LN ++ LB` — with `LN` any ordered sub-sequence of `new`, in particular the
leaves of the inserted child — are again an ordered sub-sequence of the store. -/
theorem leaves_after_window_edit {A new B LA LN LB : List Nat}
    (hA : List.Sublist LA A) (hB : List.Sublist LB B) (hN : List.Sublist LN new) :
    List.Sublist (LA ++ LN ++ LB) (A ++ new ++ B) :=
  (hA.append hN).append hB

/-- … and they stay pairwise distinct when the new store has distinct ids. -/
theorem leaves_nodup_after_window_edit {A new B LA LN LB : List Nat}
    (hA : List.Sublist LA A) (hB : List.Sublist LB B) (hN : List.Sublist LN new)
    (hd : (A ++ new ++ B).Nodup) : (LA ++ LN ++ LB).Nodup :=
  (leaves_after_window_edit hA hB hN).nodup hd

/-- Creating an optional child (C03 `create_frame`): the store becomes `A ++ p :: (seps ++ child ++ b)`; the
old leaves plus the child's leaves are an ordered sub-sequence of it. `ids` are the token identities. -/
theorem leaves_after_create {L R a b seps child : List Tk} {p : Tk} {LA LB LC : List Nat}
    (h : Distinct (L ++ (a ++ p :: b) ++ R))
    (hA : List.Sublist LA (Seq.ids (L ++ a ++ [p]))) (hB : List.Sublist LB (Seq.ids (b ++ R)))
    (hC : List.Sublist LC (Seq.ids child)) :
    ∃ s', Slots.createLeft (L ++ (a ++ p :: b) ++ R) p.id seps child = .ok s' ∧
      List.Sublist (LA ++ LC ++ LB) (Seq.ids s') := by
  refine ⟨_, Autobean.C03.create_frame seps child h, ?_⟩
  have hN : List.Sublist LC (Seq.ids (seps ++ child)) := by
    simpa [Seq.ids] using (List.sublist_append_of_sublist_right (l₁ := seps.map (·.id)) (by simpa [Seq.ids] using hC))
  have := leaves_after_window_edit hA hB hN
  simpa [Seq.ids, List.append_assoc] using this

/-- Removing an optional child (C03 `remove_frame`): the leaves outside the child stay an ordered
sub-sequence of the shrunk store. -/
theorem leaves_after_remove {L R a b gap child : List Tk} {p c : Tk} {LA LB : List Nat}
    (hc : child.getLast? = some c) (h : Distinct (L ++ (a ++ p :: (gap ++ child ++ b)) ++ R))
    (hA : List.Sublist LA (Seq.ids (L ++ a ++ [p]))) (hB : List.Sublist LB (Seq.ids (b ++ R))) :
    ∃ s', Slots.removeLeft (L ++ (a ++ p :: (gap ++ child ++ b)) ++ R) p.id c.id = .ok s' ∧
      List.Sublist (LA ++ LB) (Seq.ids s') := by
  refine ⟨_, Autobean.C03.remove_frame hc h, ?_⟩
  have := leaves_after_window_edit (new := []) (LN := []) hA hB (List.Sublist.refl _)
  simpa [Seq.ids, List.append_assoc] using this

/-- Replacing a child (C03 `replace_frame`): the new child's leaves take the place of the old child's. -/
theorem leaves_after_replace {L R a b old new : List Tk} {f l : Tk} {LA LB LN : List Nat}
    (hf : old.head? = some f) (hl : old.getLast? = some l) (h : Distinct (L ++ (a ++ old ++ b) ++ R))
    (hA : List.Sublist LA (Seq.ids (L ++ a))) (hB : List.Sublist LB (Seq.ids (b ++ R)))
    (hN : List.Sublist LN (Seq.ids new)) :
    ∃ s', Slots.replaceNode (L ++ (a ++ old ++ b) ++ R) f.id l.id new = .ok s' ∧
      List.Sublist (LA ++ LN ++ LB) (Seq.ids s') := by
  refine ⟨_, Autobean.C03.replace_frame new hf hl h, ?_⟩
  have := leaves_after_window_edit hA hB hN
  simpa [Seq.ids, List.append_assoc] using this

/-- A history of window edits, each described by `(prefix, old window, new window, suffix)` of the store and
the corresponding split of the leaves. -/
structure WindowEdit where
  A : List Nat
  new : List Nat
  B : List Nat
  LA : List Nat
  LN : List Nat
  LB : List Nat

def WindowEdit.ok (e : WindowEdit) : Prop :=
  List.Sublist e.LA e.A ∧ List.Sublist e.LN e.new ∧ List.Sublist e.LB e.B ∧ (e.A ++ e.new ++ e.B).Nodup

def WindowEdit.store (e : WindowEdit) : List Nat := e.A ++ e.new ++ e.B
def WindowEdit.leaves (e : WindowEdit) : List Nat := e.LA ++ e.LN ++ e.LB

/-- **History.** After every edit of any history of window edits, the leaves are an ordered, duplicate-free
sub-sequence of the store. -/
theorem inv_history (es : List WindowEdit) (h : ∀ e ∈ es, e.ok) :
    ∀ e ∈ es, List.Sublist e.leaves e.store ∧ e.leaves.Nodup := by
  intro e he
  obtain ⟨hA, hN, hB, hd⟩ := h e he
  exact ⟨leaves_after_window_edit hA hB hN, leaves_nodup_after_window_edit hA hB hN hd⟩

/-! Non-vacuity. -/
example : (⟨[1, 2], [7, 8], [3], [1], [8], [3]⟩ : WindowEdit).ok := by
  refine ⟨?_, ?_, ?_, ?_⟩ <;> decide

/-! ## Tree level

`Doc = (store, tree, tag)`; `DInv d`: store ids distinct, every node of the tree carries `d.tag`, the depth-first
leaves are distinct and occur in the store in store order.  The edits are those of `Model/TreeOps.lean`; a value
handed to an edit is a document `n` of its own with `FreshVal d seps n` (what `detach()` / `_check_reusable` /
`copy.deepcopy(separators)` guarantee: self-contained, none of its tokens nor the separator copies in `d`'s
store).  That the addressed child's span is contiguous and free of foreign leaves is *derived* from `DInv`. -/

section TreeLevel
open Autobean List

/-- `DInv` is the C11 invariant `TInv` minus "has a token" and "`File` only at the root". -/
theorem tinv_iff_dinv (σ : Nat) (s : List TTk) (t : Tree) :
    TInv σ s t ↔ DInv ⟨ids s, t, σ⟩ ∧ t.leaves ≠ [] ∧ t.innerFileFree = true :=
  Autobean.tinv_iff_dinv σ s t

/-! ### Lifting lemmas: a field edit changes exactly one segment of the leaf sequence -/

/-- Replacing the sub-tree at path `p` replaces exactly its leaf segment. -/
theorem leaves_replaceAt {p : Path} {t old new t' : Tree} (hs : t.subAt p = some old)
    (hr : t.replaceAt p new = some t') :
    ∃ A B, t.leaves = A ++ old.leaves ++ B ∧ t'.leaves = A ++ new.leaves ++ B :=
  Autobean.leaves_replaceAt hs hr

/-- Optional field `None → child`: the child's leaves appear, nothing else moves. -/
theorem leaves_setOptAt_create {t t' : Tree} {q : Path} {k c g : Nat} {ind : Option (List Char)}
    {fs : List Tree} {ch : Tree} (hs : t.subAt q = some (.node c g ind fs)) (hk : fs[k]? = some .absent)
    (h : t.setOptAt q k (some ch) = some t') :
    ∃ A B, t.leaves = A ++ B ∧ t'.leaves = A ++ ch.leaves ++ B :=
  Autobean.leaves_setOptAt_create hs hk h

/-- Optional field `child → None`: exactly the child's leaves disappear. -/
theorem leaves_setOptAt_remove {t t' : Tree} {q : Path} {k c g : Nat} {ind : Option (List Char)}
    {fs : List Tree} {cur : Tree} (hs : t.subAt q = some (.node c g ind fs)) (hk : fs[k]? = some cur)
    (h : t.setOptAt q k none = some t') :
    ∃ A B, t.leaves = A ++ cur.leaves ++ B ∧ t'.leaves = A ++ B :=
  Autobean.leaves_setOptAt_remove hs hk h

/-- Inserting an item: its leaves go right after those of the items before it (after the placeholder for
index 0). -/
theorem leaves_insertItemAt {t t' : Tree} {q : Path} {i g ph : Nat} {is : List Tree} {ch : Tree}
    (hs : t.subAt q = some (.rep g ph is)) (h : t.insertItemAt q i ch = some t') :
    ∃ A B, t.leaves = A ++ (ph :: (is.take i).flatMap Tree.leaves ++ (is.drop i).flatMap Tree.leaves) ++ B ∧
           t'.leaves = A ++ (ph :: (is.take i).flatMap Tree.leaves ++ ch.leaves ++
                             (is.drop i).flatMap Tree.leaves) ++ B :=
  Autobean.leaves_insertItemAt hs h

/-- Removing the items `a … b-1`: exactly their leaves disappear. -/
theorem leaves_removeItemsAt {t t' : Tree} {q : Path} {a b g ph : Nat} {is : List Tree}
    (hs : t.subAt q = some (.rep g ph is)) (h : t.removeItemsAt q a b = some t') :
    ∃ A B, t.leaves = A ++ (ph :: (is.take a).flatMap Tree.leaves ++
                            ((is.take b).drop a).flatMap Tree.leaves ++ (is.drop b).flatMap Tree.leaves) ++ B ∧
           t'.leaves = A ++ (ph :: (is.take a).flatMap Tree.leaves ++ (is.drop b).flatMap Tree.leaves) ++ B :=
  Autobean.leaves_removeItemsAt hs h

/-! ### What the invariant says about spans -/

/-- Children are nested inside their parent's span: the span (`model.tokens`) of a descendant is a contiguous
part of the span of its ancestor. -/
theorem span_nested {d : Doc} {p r : Path} {t1 t2 : Tree} (hd : DInv d) (h1 : d.tree.subAt p = some t1)
    (h2 : t1.subAt r = some t2) (hne : t2.leaves ≠ []) :
    ∃ S1 P1 M2 P2 S2, d.store = S1 ++ (P1 ++ M2 ++ P2) ++ S2 ∧
      spanIn d.store t1 = some (P1 ++ M2 ++ P2) ∧ spanIn d.store t2 = some M2 :=
  Autobean.span_nested hd h1 h2 hne

/-- Children are ordered and do not overlap: for fields / items `i < j` of one model the store reads
`… span(child i) … span(child j) …`. -/
theorem siblings_ordered {d : Doc} {q : Path} {parent ci cj : Tree} {cs : List Tree} {i j : Nat} (hd : DInv d)
    (hs : d.tree.subAt q = some parent) (hc : parent.children = some cs) (hij : i < j)
    (hi : cs[i]? = some ci) (hj : cs[j]? = some cj) (hnei : ci.leaves ≠ []) (hnej : cj.leaves ≠ []) :
    ∃ S1 Mi G Mj S2, d.store = S1 ++ Mi ++ G ++ Mj ++ S2 ∧
      spanIn d.store ci = some Mi ∧ spanIn d.store cj = some Mj :=
  Autobean.siblings_ordered hd hs hc hij hi hj hnei hnej

/-- Every sub-tree with a token has its first and last token in the store, in that order, with all its leaves in
between and every other leaf of the tree outside. -/
theorem span_exists {d : Doc} {p : Path} {sub : Tree} (hd : DInv d) (hs : d.tree.subAt p = some sub)
    (hne : sub.leaves ≠ []) :
    ∃ S1 M S2 A B, d.store = S1 ++ M ++ S2 ∧ spanIn d.store sub = some M ∧
      d.tree.leaves = A ++ sub.leaves ++ B ∧ A <+ S1 ∧ sub.leaves <+ M ∧ B <+ S2 ∧
      M.head? = sub.firstLeaf ∧ M.getLast? = sub.lastLeaf :=
  Autobean.span_exists hd hs hne

/-! ### Every edit keeps the invariant -/

/-- `replace_node` (required field, optional field holding a value, `w[i] = v`): the old child's store range is
spliced out for the value's store, the value is reattached and put in the field. -/
theorem dinv_replaceChild {d n d' : Doc} {p : Path} (hd : DInv d) (hn : FreshVal d [] n)
    (h : replaceChild d p n = some d') : DInv d' :=
  Autobean.dinv_replaceChild hd hn h

/-- … and it does not fail on a child that has a token. -/
theorem replaceChild_total {d : Doc} (n : Doc) {p : Path} {old : Tree} (hd : DInv d)
    (hs : d.tree.subAt p = some old) (hne : old.leaves ≠ []) : ∃ d', replaceChild d p n = some d' :=
  Autobean.replaceChild_total n hd hs hne

/-- `_create_node` of an optional-left (`insert_after(pivot, seps ++ value)`) and of an optional-right field
(`insert_before(pivot, value ++ seps)`), with the canonical pivot recomputed from the fields. -/
theorem dinv_createOpt {d n d' : Doc} {q : Path} {k : Nat} {seps : List Nat} (hd : DInv d)
    (hn : FreshVal d seps n) :
    (createOptL d q k seps n = some d' → DInv d') ∧ (createOptR d q k seps n = some d' → DInv d') :=
  ⟨Autobean.dinv_createOptL hd hn, Autobean.dinv_createOptR hd hn⟩

/-- `_remove_node` of an optional-left (`remove(get_next(pivot), child.last_token)`) and of an optional-right
field (`remove(child.first_token, get_prev(pivot))`). -/
theorem dinv_removeOpt {d d' : Doc} {q : Path} {k : Nat} (hd : DInv d) :
    (removeOptL d q k = some d' → DInv d') ∧ (removeOptR d q k = some d' → DInv d') :=
  ⟨Autobean.dinv_removeOptL hd, Autobean.dinv_removeOptR hd⟩

/-- `insert(i, v)` / `append(v)`: all three branches of `_insert_tokens`. -/
theorem dinv_insertItem {d n d' : Doc} {q : Path} {i : Nat} {seps : List Nat} (hd : DInv d)
    (hn : FreshVal d seps n) (h : insertItem d q i seps n = some d') : DInv d' :=
  Autobean.dinv_insertItem hd hn h

/-- `extend(values)` with every value reattached (each value fresh w.r.t. the store it is inserted into). -/
theorem dinv_extend {d d' : Doc} {q : Path} {vs : List (List Nat × Doc)} (hd : DInv d)
    (h : extendChecked d q vs = some d') : DInv d' ∧ extendItems d q vs = some d' :=
  ⟨Autobean.dinv_extendChecked hd h, Autobean.extendChecked_eq h⟩

/-- `del w[a:b]`, `clear()`: both branches of `_del_tokens`. -/
theorem dinv_removeItems {d d' : Doc} {q : Path} {a b : Nat} (hd : DInv d)
    (h : removeItems d q a b = some d') : DInv d' :=
  Autobean.dinv_removeItems hd h

/-- `pop(i)`: the remaining document satisfies the invariant, and the popped node is a complete, self-contained
document: it satisfies the invariant in its own store, which is exactly its old span, shares no token with what
remains, and is spanned end to end by the node (so `detach()` accepts it again). -/
theorem dinv_popItem {d d1 pop : Doc} {q : Path} {i τ : Nat} (hd : DInv d)
    (h : popItem d q i τ = some (d1, pop)) :
    DInv d1 ∧ DInv pop ∧ (∀ x ∈ pop.store, x ∉ d1.store) ∧
      pop.store.head? = pop.tree.firstLeaf ∧ pop.store.getLast? = pop.tree.lastLeaf :=
  Autobean.dinv_popItem hd h

/-- … its store is the store range `first_token … last_token` of the item before the pop. -/
theorem popItem_store_is_span {d d1 pop : Doc} {q : Path} {i τ : Nat} (hd : DInv d)
    (h : popItem d q i τ = some (d1, pop)) :
    ∃ g ph is it, d.tree.subAt q = some (.rep g ph is) ∧ is[i]? = some it ∧
      spanIn d.store it = some pop.store ∧ pop.tree = reattachAll τ it ∧ pop.tag = τ := by
  obtain ⟨g, ph, is, it, f, l, hs, hi, hf, hl, _, _, htag, htree, hit, _, _, _, _⟩ := Autobean.popItem_spec hd h
  exact ⟨g, ph, is, it, hs, hi, by simp [spanIn, hf, hl, hit], htree, htag⟩

/-- **History.**  After every sequence of edits (`TOp`: replace, create / remove optional, insert, set, extend,
delete, pop) the document satisfies the invariant. -/
theorem dinv_history (ops : List TOp) {d d' : Doc} (hd : DInv d) (h : runOps d ops = some d') : DInv d' :=
  Autobean.dinv_history ops hd h

/-! ### The repaired defect: `extend()` without `reattach` -/

/-- Without the reattach the store and leaf clauses still hold, and the invariant holds afterwards exactly when
every node of the value already carried this document's store — never the case for a detached value with a node. -/
theorem no_reattach_iff {d n d' : Doc} {q : Path} {i : Nat} {seps : List Nat} (hd : DInv d)
    (hn : FreshVal d seps n) (h : insertItemNoReattach d q i seps n = some d') :
    d'.store.Nodup ∧ d'.tree.leaves.Nodup ∧ d'.tree.leaves <+ d'.store ∧
      (DInv d' ↔ ∀ g ∈ n.tree.tags, g = d.tag) :=
  Autobean.insertItemNoReattach_iff hd hn h

/-! ### Non-vacuity: a concrete document and every edit on it

Tokens `1 … 9` (`2 4 6 8` are whitespace).  Root (class 2): required field `tok 1`; optional-left field holding
the node `[tok 3]`; an absent optional field; a repeated field with placeholder `5` and the items `tok 7` and
the node `[tok 9]`.  Store tag `0`.  The value: the node `[tok 20, tok 21]` in its own store (tag `1`). -/

def exDoc : Doc :=
  ⟨[1, 2, 3, 4, 5, 6, 7, 8, 9],
   .node 2 0 none [.tok 1, .node 3 0 none [.tok 3], .absent, .rep 0 5 [.tok 7, .node 4 0 none [.tok 9]]], 0⟩

def exVal : Doc := ⟨[20, 21], .node 9 1 none [.tok 20, .tok 21], 1⟩
def exVal2 : Doc := ⟨[40], .node 9 2 none [.tok 40], 2⟩

example : DInv exDoc ∧ DInv exVal ∧ FreshVal exDoc [30] exVal ∧ FreshVal exDoc [] exVal := by decide

/-- replace the required child. -/
example : ∃ d', replaceChild exDoc [0] exVal = some d' ∧ d'.store = [20, 21, 2, 3, 4, 5, 6, 7, 8, 9] ∧
    d'.tree.leaves = [20, 21, 3, 5, 7, 9] ∧ DInv d' :=
  ⟨_, rfl, rfl, rfl, dinv_replaceChild (d := exDoc) (n := exVal) (p := [0]) (by decide) (by decide) rfl⟩

/-- create the absent optional child, left and right variant (pivot `3` resp. `5`). -/
example : ∃ d', createOptL exDoc [] 2 [30] exVal = some d' ∧ d'.store = [1, 2, 3, 30, 20, 21, 4, 5, 6, 7, 8, 9] ∧
    d'.tree.leaves = [1, 3, 20, 21, 5, 7, 9] ∧ DInv d' :=
  ⟨_, rfl, rfl, rfl, (dinv_createOpt (d := exDoc) (n := exVal) (seps := [30]) (q := []) (k := 2) (by decide) (by decide)).1 rfl⟩

example : ∃ d', createOptR exDoc [] 2 [30] exVal = some d' ∧ d'.store = [1, 2, 3, 4, 20, 21, 30, 5, 6, 7, 8, 9] ∧
    d'.tree.leaves = [1, 3, 20, 21, 5, 7, 9] ∧ DInv d' :=
  ⟨_, rfl, rfl, rfl, (dinv_createOpt (d := exDoc) (n := exVal) (seps := [30]) (q := []) (k := 2) (by decide) (by decide)).2 rfl⟩

/-- remove the present optional child (gap `2` and child `3` go). -/
example : ∃ d', removeOptL exDoc [] 1 = some d' ∧ d'.store = [1, 4, 5, 6, 7, 8, 9] ∧
    d'.tree.leaves = [1, 5, 7, 9] ∧ DInv d' :=
  ⟨_, rfl, rfl, rfl, (dinv_removeOpt (d := exDoc) (q := []) (k := 1) (by decide)).1 rfl⟩

/-- insert at the front (value then separators, in front of the first item), in the middle, at the end. -/
example : (insertItem exDoc [3] 0 [30] exVal).map (·.store) = some [1, 2, 3, 4, 5, 6, 20, 21, 30, 7, 8, 9] ∧
    (insertItem exDoc [3] 1 [30] exVal).map (·.store) = some [1, 2, 3, 4, 5, 6, 7, 30, 20, 21, 8, 9] ∧
    (insertItem exDoc [3] 2 [30] exVal).map (·.store) = some [1, 2, 3, 4, 5, 6, 7, 8, 9, 30, 20, 21] ∧
    (insertItem exDoc [3] 1 [30] exVal).map (·.tree.leaves) = some [1, 3, 5, 7, 20, 21, 9] := by decide

example : ∃ d', insertItem exDoc [3] 1 [30] exVal = some d' ∧ DInv d' :=
  ⟨_, rfl, dinv_insertItem (d := exDoc) (n := exVal) (seps := [30]) (q := [3]) (i := 1) (by decide) (by decide) rfl⟩

/-- delete the first item (first branch of `_del_tokens`), the last one, all. -/
example : (removeItems exDoc [3] 0 1).map (·.store) = some [1, 2, 3, 4, 5, 6, 9] ∧
    (removeItems exDoc [3] 1 2).map (·.store) = some [1, 2, 3, 4, 5, 6, 7] ∧
    (removeItems exDoc [3] 0 2).map (·.store) = some [1, 2, 3, 4, 5] := by decide

example : ∃ d', removeItems exDoc [3] 0 1 = some d' ∧ DInv d' :=
  ⟨_, rfl, dinv_removeItems (d := exDoc) (q := [3]) (a := 0) (b := 1) (by decide) rfl⟩

/-- pop the second item: a document of its own (store `[9]`, new tag `5`). -/
example : ∃ d1 pop, popItem exDoc [3] 1 5 = some (d1, pop) ∧ d1.store = [1, 2, 3, 4, 5, 6, 7] ∧
    pop.store = [9] ∧ pop.tree.tags = [5] ∧ DInv d1 ∧ DInv pop :=
  ⟨_, _, rfl, rfl, rfl, rfl, (dinv_popItem (d := exDoc) (q := [3]) (i := 1) (τ := 5) (by decide) rfl).1,
    (dinv_popItem (d := exDoc) (q := [3]) (i := 1) (τ := 5) (by decide) rfl).2.1⟩

/-- a history: pop the last item, put it into the empty optional field, extend the list by two values, replace
the first item, remove the other optional child, clear the list. -/
def exOps : List TOp :=
  [.popItem [3] 1 5, .createOptL [] 2 [30] ⟨[9], .node 4 5 none [.tok 9], 5⟩,
   .extendItems [3] [([31], exVal), ([32], exVal2)], .setItem [3] 0 ⟨[50], .tok 50, 6⟩,
   .removeOptL [] 1, .removeItems [3] 0 3]

example : ∃ d', runOps exDoc exOps = some d' ∧ d'.store = [1, 30, 9, 4, 5] ∧ d'.tree.leaves = [1, 9, 5] ∧
    DInv d' :=
  ⟨_, rfl, rfl, rfl, dinv_history exOps (d := exDoc) (by decide) rfl⟩

/-- a value that is not fresh (here: a token already in the store) is refused, as `detach()` does. -/
example : applyOp exDoc (.insertItem [3] 0 [30] ⟨[7], .tok 7, 9⟩) = none := by decide

/-- **Negative witness** (the defect repaired in `extend()`): the same insertion without the reattach leaves a
node pointing at its old store — the tag clause fails (and only it), while the repaired edit is fine. -/
theorem extend_without_reattach_breaks :
    ∃ d', insertItemNoReattach exDoc [3] 2 [30] exVal = some d' ∧ ¬ DInv d' ∧
      d'.store.Nodup ∧ d'.tree.leaves.Nodup ∧ d'.tree.leaves <+ d'.store ∧ d'.tree.tags = [0, 0, 0, 0, 1] ∧
      ∃ d'', insertItem exDoc [3] 2 [30] exVal = some d'' ∧ DInv d'' ∧ d''.store = d'.store := by
  refine ⟨_, rfl, by decide, by decide, by decide, by decide, by decide, _, rfl, by decide, rfl⟩

end TreeLevel

end Autobean.C05
