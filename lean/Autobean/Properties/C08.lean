/-
C08 — reported line/column positions always match the printed text.

The cache of the blocked store (`tok.size`, `block.size`, `block.last_newline_index`) is described by
`CInv` (`Proofs/StoreDefs.lean`): every token size is `_token_size` of its text, every block size is
the `Position` sum of its tokens' sizes, every `last_newline_index` is the recomputed one.  `CInv`
is preserved by every mutator, including the incremental updates of the `_splice` fast path and of
`TokenStore.update`, and under it `get_position` is the size of the text before the token.
-/
import Autobean.Proofs.StorePosition
import Autobean.Proofs.StoreHistory
import Autobean.Proofs.StoreDemo

namespace Autobean.C08
open Autobean

/-- `Position` under `+` is a monoid with unit `Position()` (the three laws). -/
theorem pos_monoid (a b c : Pos) : a + b + c = a + (b + c) ∧ Pos.zero + a = a ∧ a + Pos.zero = a :=
  ⟨Pos.add_assoc a b c, Pos.zero_add a, Pos.add_zero a⟩

/-- `_token_size` is a homomorphism: the size of a concatenation is the sum of the sizes. -/
theorem tokSize_append (a b : List Char) : tokSize (a ++ b) = tokSize a + tokSize b :=
  Autobean.tokSize_append a b

/-- The size of a concatenation of many texts is the left-to-right sum of their sizes. -/
theorem tokSize_flatten (l : List (List Char)) : tokSize l.flatten = sumPos (l.map tokSize) :=
  Autobean.tokSize_flatten l

/-- `get_position(token)`: for the token at list index `k`, the reported (line, column) is
`_token_size` of the concatenated text of the first `k` tokens, i.e. the line/column of the token's
first character in the printed text.  Uses `tokSize_append` and the block-size cache. -/
theorem getPosition_eq {s : Store} (hS : SInv s) (hC : CInv s) {id : Nat} (h : id ∈ s.ids) :
    s.getPosition id = .ok (tokSize ((s.cores.take (s.ids.idxOf id)).map (·.2)).flatten) := by
  rw [getPosition_inv (inv_of hS hC) h]
  simp [Store.cores, List.map_take, List.map_map, Function.comp_def, Tok.core]

/-- A token that is not in the store: `get_position` raises "Token is not in a store". -/
theorem getPosition_rejects_unknown {s : Store} {id : Nat} (h : id ∉ s.ids) :
    s.getPosition id = .error "ValueError:not-in-store" := getPosition_not_mem h

/-- `from_tokens` establishes the cache invariant. -/
theorem cinv_fromTokens {c : LF} (hc : c.WF) (sid : Nat) {ts : List Tok} (hf : FreshToks ts) :
    ∃ s, Store.fromTokens c sid ts = .ok s ∧ CInv s := by
  obtain ⟨s, h1, h2, _, _⟩ := fromTokens_inv hc sid hf
  exact ⟨s, h1, h2.cinv⟩

/-- `_splice` preserves the cache invariant on every path; in particular the fast path's incremental
adjustment of `size.line` and `last_newline_index` gives the recomputed values. -/
theorem cinv_spliceCore {c : LF} (hc : c.WF) {s : Store} (hS : SInv s) (hC : CInv s)
    {si sj ei ej : Nat} (hsi : si < s.blocks.length) (hei : ei < s.blocks.length)
    (hsj : sj ≤ (s.blocks[si]).toks.length) (hej : ej ≤ (s.blocks[ei]).toks.length)
    (hle : si < ei ∨ (si = ei ∧ sj ≤ ej)) {ts : List Tok} (hf : Fresh s ts) :
    ∃ out, spliceCore c s ts (si, sj) (ei, ej) = .ok out ∧ CInv out.store := by
  obtain ⟨out, h1, h2⟩ := spliceSpec_of_vpos hc (inv_of hS hC) (i := flatIdx s.blocks si sj)
    (j := flatIdx s.blocks ei ej) ⟨hsi, hsj, rfl⟩ ⟨hei, hej, rfl⟩ hle hf
  exact ⟨out, h1, h2.inv.cinv⟩

/-- The fast path in isolation: with `P` the kept prefix, `Rm` the removed range, `S` the kept suffix
holding a line break at or after the end of the range, and `T` the inserted tokens, the adjusted
`(size, last_newline_index)` are the recomputed ones. -/
theorem fastpath_cache_correct {P Rm S T : List Tok} {lni : Int} {size : Pos}
    (hsize : size = sizeOfToks (P ++ Rm ++ S)) (hlni : lni = lniFrom 0 (-1) (P ++ Rm ++ S))
    (hge : lni ≥ ((P ++ Rm).length : Int)) :
    (⟨((size.line : Int) + ((sumLines T : Int) - (sumLines Rm : Int))).toNat, size.col⟩ : Pos)
        = sizeOfToks (P ++ T ++ S) ∧
      lni + ((T.length : Int) - (((P ++ Rm).length : Int) - (P.length : Int)))
        = lniFrom 0 (-1) (P ++ T ++ S) := fastpath_cache hsize hlni hge

/-- `TokenStore.update` (all four branches: before the last newline, creating a line break,
removing a line break with the backward scan, otherwise) preserves the cache invariant. -/
theorem cinv_updateText {s : Store} (hS : SInv s) (hC : CInv s) {id : Nat} (h : id ∈ s.ids)
    (txt : List Char) : ∃ s', Store.updateText s id txt = .ok s' ∧ SInv s' ∧ CInv s' := by
  obtain ⟨s', h1, h2, _⟩ := updateText_inv (inv_of hS hC) h txt
  exact ⟨s', h1, h2.sinv, h2.cinv⟩

/-- The backward scan of the "remove new line" branch computes the column and the last-newline
index of the scanned prefix. -/
theorem scanBack_correct (A : List Tok) : scanBack A = ((sizeOfToks A).col, lniFrom 0 (-1) A) :=
  scanBack_eq A

/-- The cache invariant holds after every well-formed history of operations (started by
`from_tokens` on fresh tokens), so `get_position` is right after every history. -/
theorem cinv_history {c : LF} (hc : c.WF) (sid : Nat) {ts0 : List Tok} (hf : FreshToks ts0)
    (ops : List Op) (hwf : WFHist ops (ts0.map Tok.core)) :
    ∃ s0 s, Store.fromTokens c sid ts0 = .ok s0 ∧ conRun c ops s0 = .ok s ∧ CInv s ∧
      ∀ id ∈ s.ids, s.getPosition id =
        .ok (tokSize (((absRun ops (ts0.map Tok.core)).take (s.ids.idxOf id)).map (·.2)).flatten) := by
  obtain ⟨s0, h1, h2, _, h4⟩ := fromTokens_inv hc sid hf
  have hc0 : s0.cores = ts0.map Tok.core := map_core_of_strip h4
  obtain ⟨s, g1, g2, _, g4⟩ := run_refines hc ops h2 (by rw [hc0]; exact hwf)
  refine ⟨s0, s, h1, g1, g2.cinv, ?_⟩
  intro id hid
  rw [getPosition_eq g2.sinv g2.cinv hid, g4, hc0]

/-- A token edited while it is outside every store (`Tok.updateFree`) still carries the size of its text, so a
list of insertable tokens stays insertable (`FreshToks`, the hypothesis of every mutator theorem above) after
any of its members had its text changed while detached. -/
theorem freshToks_updateFree {ts : List Tok} (hf : FreshToks ts) (id : Nat) (txt : List Char) :
    FreshToks (ts.map fun t => if t.id = id then t.updateFree txt else t) := by
  refine ⟨?_, ?_, ?_⟩
  · intro t ht
    obtain ⟨u, hu, rfl⟩ := List.mem_map.1 ht
    by_cases h : u.id = id <;> simp [h, Tok.updateFree, hf.detached u hu]
  · intro t ht
    obtain ⟨u, hu, rfl⟩ := List.mem_map.1 ht
    by_cases h : u.id = id <;> simp [h, Tok.updateFree, hf.sized u hu]
  · have : (ts.map fun t => if t.id = id then t.updateFree txt else t).map (·.id) = ts.map (·.id) := by
      rw [List.map_map]; apply List.map_congr_left; intro t _
      by_cases h : t.id = id <;> simp [h, Tok.updateFree]
    rw [this]; exact hf.nodup

/-- The size cached on a detached token after an edit is the size of the new text, whatever it was before. -/
theorem updateFree_sized (t : Tok) (txt : List Char) : (t.updateFree txt).size = tokSize (t.updateFree txt).text := rfl

/-! ### The hypotheses are satisfiable -/

open Autobean.Demo

/-- The four-block demo store satisfies both invariants; token 6 is at index 5, after the text
`"ab\nc" ++ "d\ne" ++ ""`, i.e. at line 2, column 1. -/
example : SInv demoStore ∧ CInv demoStore := ⟨demo_inv.sinv, demo_inv.cinv⟩
example : (6 : Nat) ∈ demoStore.ids := by decide
example : demoStore.getPosition 6 = .ok ⟨2, 1⟩ := by
  rw [getPosition_eq demo_inv.sinv demo_inv.cinv (by decide)]; rfl
example : demoStore.getPosition 6 = .ok ⟨2, 1⟩ := by rfl

/-- Hypotheses of `fastpath_cache_correct`: block 1 of the demo store (`c`, `d\ne`), replacing `c`
(range `[0,1)`), the suffix `d\ne` holds a line break at index `1 ≥ 1`. -/
example : (demoStore.blocks[1]'(by decide)).lni ≥ ((([] : List Tok) ++ (demoStore.blocks[1]'(by decide)).toks.take 1).length : Int) := by
  decide

end Autobean.C08
