import Autobean.Proofs.CostHistory
import Autobean.Proofs.TxnLemmas
/-
C09 — a value written through a property is the value read back, siblings unaffected; for the dependent
groups (cost number-per / number-total / currency, transaction payee / narration) every sequence of
assignments leaves the group equal to the record-of-optionals model, with the documented rejections
and the payee-implies-narration rule, whatever concrete form it started from.

Models: `Autobean/Model/Cost.lean` (`cost_spec.py`, `unordered_node_property`, `optional_*_property`),
`Autobean/Model/Txn.lean` (`transaction.py`), `Autobean/Model/OptSlot.lean` (`optional_*_property`).
"Survives print and re-parse" is a statement about printer and parser: it is checked on the real code by
`harness/props/c09.py` after every step; on the model side only the transaction header strings have a
non-trivial re-parse (`txn_reparse`).
-/
namespace Autobean.C09
open Autobean

/-- **Cost group, one assignment.**  For a canonical cost `c` and any assignment `o` (number_per, number_total,
currency, date, label, merge; through the value-level property or through the raw property):
if the setter returns `c'`, then `c'` is canonical again, its six getters read exactly the plain field update
of what they read before — so the assigned property reads the assigned value and the five others are unchanged —
and the record model does not reject; if the setter raises, the record model rejects (the update would give
number_per and number_total without currency) and the exception is the documented `ValueError`. -/
theorem cost_refines (o : Cost.Op) (c : Cost.Cost) (h : Cost.Canon c) :
    (∀ c', o.apply c = .ok c' →
        Cost.Canon c' ∧ Cost.view c' = Cost.Rec.set o.a (Cost.view c) ∧ Cost.Rec.rejects o.a (Cost.view c) = false) ∧
    (∀ e, o.apply c = .error e → Cost.Rec.rejects o.a (Cost.view c) = true ∧ e = Cost.errCost) := by
  have hg := Cost.apply_good o c h
  constructor
  · intro c' hc; rw [hc] at hg; exact hg
  · intro e he; rw [he] at hg; exact hg

/-- The record a canonical cost reads as is never the forbidden combination (both numbers, no currency). -/
theorem cost_view_ok (c : Cost.Cost) (h : Cost.Canon c) : (Cost.view c).Ok :=
  Cost.view_ok c h

/-- **Cost group, histories.**  From every canonical start and for every list of assignments, the concrete run and
the record run agree at every step — same accepted/refused outcome, same six getter values (a refused step leaves
both unchanged) — and every state visited is canonical. -/
theorem cost_history (os : List Cost.Op) (c : Cost.Cost) (h : Cost.Canon c) :
    (Cost.runC os c).map (fun s => (s.1, Cost.view s.2)) = Cost.runR os (Cost.view c) ∧
    ∀ s ∈ Cost.runC os c, Cost.Canon s.2 :=
  Cost.run_agree os c h

/-- **Start forms.**  Every documented form — braces `{}` or `{{}}`, at most one main component (number, currency,
amount, compound amount), optional date, label, `*` — in any order of its components is canonical. -/
theorem cost_parse_canon (t : Bool) (main : Option Cost.Comp) (hmain : ∀ x, main = some x → x.isMain = true)
    (d : Option Cost.Dt) (s : Option Cost.St) (m : Bool) (l : List Cost.Comp)
    (hp : (Cost.mkForm main d s m).Perm l) : Cost.Canon ⟨t, l⟩ :=
  Cost.canon_perm hp (Cost.mkForm_canon t main hmain d s m)

/-- … and reads the same in any order of its components: date, label, merge directly; a number as number_per
inside `{}` and as number_total inside `{{}}`; a compound amount as its three parts. -/
theorem cost_form_view (t : Bool) (main : Option Cost.Comp) (hmain : ∀ x, main = some x → x.isMain = true)
    (d : Option Cost.Dt) (s : Option Cost.St) (m : Bool) (l : List Cost.Comp)
    (hp : (Cost.mkForm main d s m).Perm l) :
    Cost.view ⟨t, l⟩ = Cost.view ⟨t, Cost.mkForm main d s m⟩ :=
  (Cost.view_perm hp (Cost.mkForm_canon t main hmain d s m)).symm

/-- **`CostSpec.from_value`** builds, for every admissible record, a canonical cost that reads back as that record … -/
theorem fromValue_view (r : Cost.Rec) (h : r.Ok) :
    ∃ c, Cost.fromValue r = .ok c ∧ Cost.view c = r ∧ Cost.Canon c :=
  Cost.fromValue_ok r h

/-- … and refuses exactly the forbidden combination. -/
theorem fromValue_rejects (r : Cost.Rec) (h : ¬ r.Ok) : Cost.fromValue r = .error Cost.errCost := by
  apply Cost.fromValue_err
  simpa [Cost.Rec.Ok] using h

/-- **Payee/narration, one assignment** (value-level or raw): the result has an empty `string0`, payee ⇒ narration,
and reads as the record update with the documented dependency (a payee creates an empty narration; clearing the
narration while a payee is present leaves the empty narration). -/
theorem txn_refines (o : Txn.Op) (t : Txn.Txn) (h : Txn.Canon t) :
    Txn.Canon (o.apply t) ∧ Txn.view (o.apply t) = Txn.Rec.set o.a (Txn.view t) :=
  Txn.apply_refines o t h

/-- **Payee/narration, histories**: concrete run and record run agree after every step, from every canonical start. -/
theorem txn_history (os : List Txn.Op) (t : Txn.Txn) (h : Txn.Canon t) :
    (Txn.runC os t).map Txn.view = Txn.runR os (Txn.view t) ∧ ∀ t' ∈ Txn.runC os t, Txn.Canon t' :=
  Txn.run_agree os t h

/-- What the parser hands to `from_parsed_children` (`string0` is never filled) is canonical. -/
theorem txn_parse_canon (b c : Option Txn.S) : Txn.Canon (Txn.fromParsed none b c) :=
  Txn.fromParsed_canon b c

/-- Printing the header strings of a canonical transaction and parsing them again gives the same three slots
(this is what the payee-implies-narration rule is for: `* "payee"` alone would re-read as a narration). -/
theorem txn_reparse (t : Txn.Txn) (h : Txn.Canon t) : Txn.parse (Txn.printed t) = some t :=
  Txn.reparse t h

/-- **Generic optional value property** (`optional_string/decimal/date_property`): the assigned slot reads the
assigned value (also `None`), every other slot reads as before. -/
theorem opt_value_roundtrip (m : OptSlot.Obj) (i : Nat) (v : Option Nat) :
    OptSlot.getV (OptSlot.setV i v m) i = v ∧ ∀ j, j ≠ i → OptSlot.getV (OptSlot.setV i v m) j = OptSlot.getV m j :=
  ⟨OptSlot.get_set_same m i v, fun j hj => OptSlot.get_set_other m i j v hj⟩

/-! ### Non-vacuity: the hypotheses hold on concrete, non-trivial states and the statements say something there. -/

-- `{1}` → currency = 3 → number_total = 5 → currency = None (refused): the repaired history.
example : Cost.Canon ⟨false, [.number 1]⟩ := by decide
example :
    (Cost.runC [⟨false, .cur (some 3)⟩, ⟨false, .tot (some 5)⟩, ⟨false, .cur none⟩, ⟨true, .per none⟩]
      ⟨false, [.number 1]⟩).map (fun s => (s.1, s.2.comps)) =
    [(true, [.amount 1 3]), (true, [.compound (some 1) (some 5) 3]), (false, [.compound (some 1) (some 5) 3]),
     (true, [.compound none (some 5) 3])] := by decide
-- a start form in a different order: `{2000-01-01, *, 1 USD, "l"}` inside double braces
example : Cost.Canon ⟨true, [.date 1, .asterisk, .amount 1 1, .label 2]⟩ := by decide
example : (Cost.mkForm (some (.amount 1 1)) (some 1) (some 2) true).Perm [.date 1, .asterisk, .amount 1 1, .label 2] := by
  decide
example : Cost.view ⟨true, [.date 1, .asterisk, .amount 1 1, .label 2]⟩ = ⟨none, some 1, some 1, some 1, some 2, true⟩ := by
  decide
-- a rejected assignment: `{{1}}`, number_per = 2
example : (Cost.Op.mk false (.per (some 2))).apply ⟨true, [.number 1]⟩ = .error Cost.errCost := rfl
-- not canonical (outside the quantifier): `{1, USD}`
example : ¬ Cost.Canon ⟨false, [.number 1, .currency 1]⟩ := by decide
-- transaction: `* "n"` → payee = 4 → narration = None
example : Txn.Canon (Txn.fromParsed none (some 1) none) := by decide
example : Txn.runC [⟨false, .payee (some 4)⟩, ⟨false, .narration none⟩, ⟨true, .payee none⟩, ⟨false, .narration none⟩]
    (Txn.fromParsed none (some 1) none) = [⟨none, some 4, some 1⟩, ⟨none, some 4, some 0⟩, ⟨none, none, some 0⟩, ⟨none, none, none⟩] := by
  decide

end Autobean.C09
