/-
C07 — the blocked token store behaves exactly like a plain ordered sequence.

Everything is stated for the model `Autobean/Model/Store.lean` (a transcription of
`autobean_refactor/token_store.py`), for ALL load factors `c.WF` (`lf ≥ 2`, `dbl = 2·lf`,
`half = lf/2`, `onehalf = lf + half`) and all operation histories.  The abstraction function is
`Store.cores` (the tokens' identities and texts in order); `SInv` is the structural invariant and
`CInv` the cache invariant (both in `Proofs/StoreDefs.lean`).  The proofs are in `Proofs/Store*.lean`.
-/
import Autobean.Proofs.StoreQueries
import Autobean.Proofs.StoreHistory
import Autobean.Proofs.StoreDemo

namespace Autobean.C07
open Autobean

/-! ### `Position` and `_token_size` -/

/-- `Position.__add__` is associative. -/
theorem pos_add_assoc (a b c : Pos) : a + b + c = a + (b + c) := Pos.add_assoc a b c

/-- `Position()` is a left unit of `Position.__add__`. -/
theorem pos_zero_add (a : Pos) : Pos.zero + a = a := Pos.zero_add a

/-- `Position()` is a right unit of `Position.__add__`. -/
theorem pos_add_zero (a : Pos) : a + Pos.zero = a := Pos.add_zero a

/-- `_token_size` of a concatenated text is the `Position` sum of the two sizes. -/
theorem tokSize_append (a b : List Char) : tokSize (a ++ b) = tokSize a + tokSize b :=
  Autobean.tokSize_append a b

/-! ### `_build_blocks` and `from_tokens` -/

/-- `_build_blocks` (well-formed constants): flattening the built blocks gives the input back (same
identities and texts; only the handles were assigned), no block is empty, the stored indexes are
`idx, idx+1, …`, the new block objects are `ref, ref+1, …`, every block has correct handles and a
correct cached size / last-newline index, and a non-empty input gives at least one block. -/
theorem buildBlocks_refines {c : LF} (hc : c.WF) (sid ref idx : Nat) (ts : List Tok) :
    ((buildBlocks c sid ref idx ts).flatMap (·.toks)).map Tok.core = ts.map Tok.core ∧
    (∀ b ∈ buildBlocks c sid ref idx ts, b.toks ≠ []) ∧
    (buildBlocks c sid ref idx ts).map (·.idx) = List.range' idx (buildBlocks c sid ref idx ts).length ∧
    (buildBlocks c sid ref idx ts).map (·.ref) = List.range' ref (buildBlocks c sid ref idx ts).length ∧
    (∀ b ∈ buildBlocks c sid ref idx ts, BOK sid b) ∧
    (ts ≠ [] → buildBlocks c sid ref idx ts ≠ []) :=
  ⟨map_core_of_strip (buildBlocks_strip c sid ref idx ts), buildBlocks_noEmpty hc sid ref idx ts,
    buildBlocks_idx c sid ref idx ts, buildBlocks_refs c sid ref idx ts, buildBlocks_bok c sid ref idx ts,
    buildBlocks_ne_nil c sid ref idx⟩

/-- `TokenStore.from_tokens` on detached, correctly sized, pairwise distinct tokens succeeds, the
result satisfies both invariants and reads back as the given list. -/
theorem fromTokens_refines {c : LF} (hc : c.WF) (sid : Nat) {ts : List Tok} (hf : FreshToks ts) :
    ∃ s, Store.fromTokens c sid ts = .ok s ∧ SInv s ∧ CInv s ∧ s.cores = ts.map Tok.core := by
  obtain ⟨s, h1, h2, _, h4⟩ := fromTokens_inv hc sid hf
  exact ⟨s, h1, h2.sinv, h2.cinv, map_core_of_strip h4⟩

/-! ### `_splice` -/

/-- The heart of C07: `_splice(tokens, (si,sj), (ei,ej))` on a store satisfying the invariants, between
two valid positions, with fresh tokens, succeeds on every path (same-block fast path, same-block
`_update_block` with split / merge with previous / merge with next / re-split / plain rebuild, and
the multi-block path); the result satisfies both invariants and is the plain-list slice assignment
`l[i:j] = tokens` where `i, j` are the flat indexes of the two positions; the removed tokens are
exactly `l[i:j]` and they are detached.

Side condition (stated explicitly, stronger than "flat index `i ≤ j`"): the positions must be in
*lexicographic* order, `si < ei ∨ (si = ei ∧ sj ≤ ej)`.  Flat order is not enough: `(p+1, 0)` and
`(p, len(block p))` denote the same flat index, but `_splice((p+1,0), (p,len))` takes the multi-block
branch with `start_i > end_i` and does not behave like a list (see `splice_needs_lex_order` below).
Lexicographic order implies `i ≤ j` (last conjunct), and every position pair the public interface
produces from `ref` not after `del_end` is in lexicographic order (`lex_of_flat_order`). -/
theorem spliceCore_refines {c : LF} (hc : c.WF) {s : Store} (hS : SInv s) (hC : CInv s)
    {si sj ei ej : Nat} (hsi : si < s.blocks.length) (hei : ei < s.blocks.length)
    (hsj : sj ≤ (s.blocks[si]).toks.length) (hej : ej ≤ (s.blocks[ei]).toks.length)
    (hle : si < ei ∨ (si = ei ∧ sj ≤ ej)) {ts : List Tok} (hf : Fresh s ts) :
    ∃ out, spliceCore c s ts (si, sj) (ei, ej) = .ok out ∧ SInv out.store ∧ CInv out.store ∧
      out.store.cores = s.cores.take (flatIdx s.blocks si sj) ++ ts.map Tok.core ++
        s.cores.drop (flatIdx s.blocks ei ej) ∧
      out.removed.map Tok.core = (s.cores.drop (flatIdx s.blocks si sj)).take
        (flatIdx s.blocks ei ej - flatIdx s.blocks si sj) ∧
      (∀ t ∈ out.removed, t.h = none) ∧
      flatIdx s.blocks si sj ≤ flatIdx s.blocks ei ej := by
  obtain ⟨out, h1, h2⟩ := spliceSpec_of_vpos hc (inv_of hS hC) (i := flatIdx s.blocks si sj)
    (j := flatIdx s.blocks ei ej) ⟨hsi, hsj, rfl⟩ ⟨hei, hej, rfl⟩ hle hf
  exact ⟨out, h1, h2.inv.sinv, h2.inv.cinv, h2.cores, h2.removed_cores, h2.removed_detached, h2.le⟩

/-- For two *token* positions, flat order implies lexicographic order (so the side condition of
`spliceCore_refines` is met whenever `ref` is not after `del_end`). -/
theorem lex_of_flat_order {bs : List Block} {p j p' j' : Nat} (hp' : p' < bs.length)
    (hj' : j' < (bs[p']).toks.length) (h : flatIdx bs p j ≤ flatIdx bs p' j') :
    p < p' ∨ (p = p' ∧ j ≤ j') := lex_of_flat hp' hj' h

/-- A token carrying a handle of another store makes `_splice` raise "Token already in a store"
(all inserted tokens being detached or foreign); the model is pure, so the store is untouched. -/
theorem spliceCore_rejects_foreign (c : LF) (s : Store) (ts : List Tok) (start stop : Nat × Nat)
    (hall : ∀ t ∈ ts, t.h = none ∨ ∃ hd, t.h = some hd ∧ hd.sid ≠ s.sid)
    (hex : ∃ t ∈ ts, ∃ hd, t.h = some hd ∧ hd.sid ≠ s.sid) :
    spliceCore c s ts start stop = .error "ValueError:already-in-store" :=
  spliceCore_foreign c s ts start stop hall hex

/-! ### Public mutators, addressed by token identity -/

/-- `splice(tokens, ref, del_end)` is `l[i:j] = tokens` with `i` the index of `ref` (0 for `None`) and
`j` one past the index of `del_end` (`j = i` for `None`), provided the references are in the store and
`del_end` is not before `ref`. -/
theorem splice_refines {c : LF} (hc : c.WF) {s : Store} (hS : SInv s) (hC : CInv s) {ts : List Tok}
    (hf : Fresh s ts) {ref delEnd : Option Nat}
    (href : ∀ r, ref = some r → r ∈ s.ids) (hend : ∀ e, delEnd = some e → e ∈ s.ids)
    (hord : ∀ r e, ref = some r → delEnd = some e → s.ids.idxOf r ≤ s.ids.idxOf e) :
    ∃ out, s.splice c ts ref delEnd = .ok out ∧ SInv out.store ∧ CInv out.store ∧
      out.store.cores = s.cores.take (refIdx s.ids ref) ++ ts.map Tok.core ++
        s.cores.drop (endIdx s.ids (refIdx s.ids ref) delEnd) ∧
      out.removed.map Tok.core = (s.cores.drop (refIdx s.ids ref)).take
        (endIdx s.ids (refIdx s.ids ref) delEnd - refIdx s.ids ref) ∧
      (∀ t ∈ out.removed, t.h = none) := by
  obtain ⟨out, h1, h2⟩ := splice_spec hc (inv_of hS hC) hf href hend hord
  exact ⟨out, h1, h2.inv.sinv, h2.inv.cinv, h2.cores, h2.removed_cores, h2.removed_detached⟩

/-- `insert_after(ref, tokens)` is `l[k+1:k+1] = tokens` (`l[0:0] = tokens` for `None`). -/
theorem insertAfter_refines {c : LF} (hc : c.WF) {s : Store} (hS : SInv s) (hC : CInv s) {ts : List Tok}
    (hf : Fresh s ts) {ref : Option Nat} (href : ∀ r, ref = some r → r ∈ s.ids) :
    ∃ out, s.insertAfter c ref ts = .ok out ∧ SInv out.store ∧ CInv out.store ∧
      out.store.cores = s.cores.take (afterIdx s.ids ref) ++ ts.map Tok.core ++
        s.cores.drop (afterIdx s.ids ref) ∧ out.removed = [] := by
  obtain ⟨out, h1, h2⟩ := insertAfter_spec hc (inv_of hS hC) hf href
  exact ⟨out, h1, h2.inv.sinv, h2.inv.cinv, h2.cores, by simp [h2.removed]⟩

/-- `insert_before(ref, tokens)` is `l[k:k] = tokens` (`l[0:0] = tokens` for `None`). -/
theorem insertBefore_refines {c : LF} (hc : c.WF) {s : Store} (hS : SInv s) (hC : CInv s) {ts : List Tok}
    (hf : Fresh s ts) {ref : Option Nat} (href : ∀ r, ref = some r → r ∈ s.ids) :
    ∃ out, s.insertBefore c ref ts = .ok out ∧ SInv out.store ∧ CInv out.store ∧
      out.store.cores = s.cores.take (refIdx s.ids ref) ++ ts.map Tok.core ++
        s.cores.drop (refIdx s.ids ref) ∧ out.removed = [] := by
  obtain ⟨out, h1, h2⟩ := insertBefore_spec hc (inv_of hS hC) hf href
  exact ⟨out, h1, h2.inv.sinv, h2.inv.cinv, h2.cores, by simp [h2.removed]⟩

/-- `replace(token, repl)` is `l[k:k+1] = [repl]`; the replaced token comes out detached. -/
theorem replace_refines {c : LF} (hc : c.WF) {s : Store} (hS : SInv s) (hC : CInv s) {tok : Nat}
    {repl : Tok} (hf : Fresh s [repl]) (htok : tok ∈ s.ids) :
    ∃ out, s.replace c tok repl = .ok out ∧ SInv out.store ∧ CInv out.store ∧
      out.store.cores = s.cores.take (s.ids.idxOf tok) ++ [repl.core] ++ s.cores.drop (s.ids.idxOf tok + 1) ∧
      out.removed.map Tok.core = (s.cores.drop (s.ids.idxOf tok)).take 1 ∧
      (∀ t ∈ out.removed, t.h = none) := by
  obtain ⟨out, h1, h2⟩ := replace_spec hc (inv_of hS hC) hf htok
  refine ⟨out, h1, h2.inv.sinv, h2.inv.cinv, by simpa using h2.cores, ?_, h2.removed_detached⟩
  simpa using h2.removed_cores

/-- `remove(start, end)` is `del l[k1:k2+1]` (`end` defaults to `start`), provided `end` is not
before `start`. -/
theorem remove_refines {c : LF} (hc : c.WF) {s : Store} (hS : SInv s) (hC : CInv s) {start : Nat}
    {stop : Option Nat} (hstart : start ∈ s.ids) (hstop : stop.getD start ∈ s.ids)
    (hord : s.ids.idxOf start ≤ s.ids.idxOf (stop.getD start)) :
    ∃ out, s.remove c start stop = .ok out ∧ SInv out.store ∧ CInv out.store ∧
      out.store.cores = s.cores.take (s.ids.idxOf start) ++ s.cores.drop (s.ids.idxOf (stop.getD start) + 1) ∧
      out.removed.map Tok.core = (s.cores.drop (s.ids.idxOf start)).take
        (s.ids.idxOf (stop.getD start) + 1 - s.ids.idxOf start) ∧
      (∀ t ∈ out.removed, t.h = none) := by
  obtain ⟨out, h1, h2⟩ := remove_spec hc (inv_of hS hC) hstart hstop hord
  exact ⟨out, h1, h2.inv.sinv, h2.inv.cinv, by simpa using h2.cores, h2.removed_cores, h2.removed_detached⟩

/-! ### Queries -/

/-- `len(store)` is the length of the list. -/
theorem len_eq {s : Store} (hS : SInv s) : s.len = s.ids.length := by
  rw [hS.len]; simp [Store.ids]

/-- `get_index(token)` is the position of the token in the list. -/
theorem getIndex_eq {s : Store} (hS : SInv s) (hC : CInv s) {id : Nat} (h : id ∈ s.ids) :
    s.getIndex id = .ok (s.ids.idxOf id) := Autobean.getIndex_eq (inv_of hS hC) h

/-- `get_prev(token)` is the left neighbour in the list, `None` at the front. -/
theorem getPrev_eq {s : Store} (hS : SInv s) (hC : CInv s) {id : Nat} (h : id ∈ s.ids) :
    s.getPrev id = .ok (if s.ids.idxOf id = 0 then none else s.ids[s.ids.idxOf id - 1]?) :=
  Autobean.getPrev_eq (inv_of hS hC) h

/-- `get_next(token)` is the right neighbour in the list, `None` at the end. -/
theorem getNext_eq {s : Store} (hS : SInv s) (hC : CInv s) {id : Nat} (h : id ∈ s.ids) :
    s.getNext id = .ok (s.ids[s.ids.idxOf id + 1]?) := Autobean.getNext_eq (inv_of hS hC) h

/-- `get_first()` is the head of the list (`None` when empty). -/
theorem getFirst_eq {s : Store} (hS : SInv s) (hC : CInv s) : s.getFirst = s.ids.head? :=
  Autobean.getFirst_eq (inv_of hS hC)

/-- `get_last()` is the last element of the list (`None` when empty). -/
theorem getLast_eq {s : Store} (hS : SInv s) (hC : CInv s) : s.getLast = .ok s.ids.getLast? :=
  Autobean.getLast_eq (inv_of hS hC)

/-- `iter(a, b)` is the contiguous sub-list from `a` to `b` inclusive when `a` is not after `b`. -/
theorem iter_eq {s : Store} (hS : SInv s) (hC : CInv s) {a b : Nat} (ha : a ∈ s.ids) (hb : b ∈ s.ids)
    (hab : s.ids.idxOf a ≤ s.ids.idxOf b) :
    s.iter a b = .ok ((s.ids.drop (s.ids.idxOf a)).take (s.ids.idxOf b + 1 - s.ids.idxOf a)) :=
  Autobean.iter_eq (inv_of hS hC) ha hb hab

/-- A token that is not in the store: `get_index` raises "Token is not in a store". -/
theorem getIndex_rejects_unknown {s : Store} {id : Nat} (h : id ∉ s.ids) :
    s.getIndex id = .error "ValueError:not-in-store" := getIndex_not_mem h

/-! ### `Token._update_raw_text` (also the core of C02) -/

/-- Changing the text of a token of the store keeps both invariants, keeps all identities and their
order, and changes exactly the one entry of the list. -/
theorem updateText_refines {s : Store} (hS : SInv s) (hC : CInv s) {id : Nat} (h : id ∈ s.ids)
    (txt : List Char) :
    ∃ s', Store.updateText s id txt = .ok s' ∧ SInv s' ∧ CInv s' ∧ s'.ids = s.ids ∧
      s'.cores = s.cores.set (s.ids.idxOf id) (id, txt) ∧
      s'.cores = s.cores.map (fun c => if c.1 = id then (id, txt) else c) := by
  obtain ⟨s', h1, h2, _, h4, h5, h6⟩ := updateText_inv (inv_of hS hC) h txt
  exact ⟨s', h1, h2.sinv, h2.cinv, h4, h5, h6⟩

/-! ### Histories -/

/-- One operation (`Op`: splice / insert_after / insert_before / replace / remove / text update) that
is well-formed with respect to the plain list (references present, end not before the reference,
inserted tokens fresh) succeeds on the store, keeps the invariants and commutes with the abstraction. -/
theorem step_refines {c : LF} (hc : c.WF) {s : Store} (hS : SInv s) (hC : CInv s) (op : Op)
    (hwf : op.WF s.cores) :
    ∃ s', op.run c s = .ok s' ∧ SInv s' ∧ CInv s' ∧ s'.cores = op.abs s.cores := by
  obtain ⟨s', h1, h2, _, h4⟩ := Autobean.step_refines hc (inv_of hS hC) op hwf
  exact ⟨s', h1, h2.sinv, h2.cinv, h4⟩

/-- Refinement of whole histories: start the blocked store and a plain list from the same fresh
tokens, apply the same well-formed operations to both (`conRun` / `absRun`): the concrete run never
raises, ends in a store satisfying both invariants, and the store reads back as the plain list. -/
theorem refines_history {c : LF} (hc : c.WF) (sid : Nat) {ts0 : List Tok} (hf : FreshToks ts0)
    (ops : List Op) (hwf : WFHist ops (ts0.map Tok.core)) :
    ∃ s0 s, Store.fromTokens c sid ts0 = .ok s0 ∧ conRun c ops s0 = .ok s ∧ SInv s ∧ CInv s ∧
      s.cores = absRun ops (ts0.map Tok.core) := by
  obtain ⟨s0, h1, h2, _, h4⟩ := fromTokens_inv hc sid hf
  have hc0 : s0.cores = ts0.map Tok.core := map_core_of_strip h4
  obtain ⟨s, g1, g2, _, g4⟩ := run_refines hc ops h2 (by rw [hc0]; exact hwf)
  exact ⟨s0, s, h1, g1, g2.sinv, g2.cinv, by rw [g4, hc0]⟩

/-- … and they agree after *every* step: the statement holds for each prefix of the history. -/
theorem refines_history_every_step {c : LF} (hc : c.WF) (sid : Nat) {ts0 : List Tok} (hf : FreshToks ts0)
    (ops : List Op) (hwf : WFHist ops (ts0.map Tok.core)) (n : Nat) :
    ∃ s0 s, Store.fromTokens c sid ts0 = .ok s0 ∧ conRun c (ops.take n) s0 = .ok s ∧ SInv s ∧ CInv s ∧
      s.cores = absRun (ops.take n) (ts0.map Tok.core) :=
  refines_history hc sid hf (ops.take n) (wfHist_take ops _ n hwf)

/-! ### The hypotheses are satisfiable: a concrete four-block store -/

open Autobean.Demo

/-- Load factor 2 is well-formed. -/
example : c2.WF := by decide

/-- `from_tokens` of seven fresh tokens at load factor 2 gives the four-block store `demoStore`. -/
example : Store.fromTokens c2 1 demoToks = .ok demoStore := demo_fromTokens
example : FreshToks demoToks := demoToks_fresh
example : demoStore.blocks.map (·.toks.length) = [2, 2, 1, 2] := by decide

/-- … which satisfies both invariants. -/
example : SInv demoStore ∧ CInv demoStore := ⟨demo_inv.sinv, demo_inv.cinv⟩

/-- Hypotheses of `spliceCore_refines` for a splice from `(0,1)` to `(2,1)` (multi-block path) with a
fresh token. -/
example : (0 : Nat) < demoStore.blocks.length ∧ (2 : Nat) < demoStore.blocks.length := by decide
example : (1 : Nat) ≤ (demoStore.blocks[0]'(by decide)).toks.length ∧
    (1 : Nat) ≤ (demoStore.blocks[2]'(by decide)).toks.length := by decide
example : Fresh demoStore [newTok] := newTok_fresh

/-- The conclusion on that instance, and the model evaluated directly agrees with it. -/
example : ∃ out, spliceCore c2 demoStore [newTok] (0, 1) (2, 1) = .ok out ∧ SInv out.store ∧
    out.store.cores = [(1, ['a', 'b']), (9, ['x', '\n', 'y']), (6, ['f']), (7, ['g'])] := by
  obtain ⟨out, h1, h2, _, h4, _⟩ := spliceCore_refines c2_wf demo_inv.sinv demo_inv.cinv
    (si := 0) (sj := 1) (ei := 2) (ej := 1) (by decide) (by decide) (by decide) (by decide)
    (Or.inl (by decide)) newTok_fresh
  exact ⟨out, h1, h2, by rw [h4]; decide⟩

/-- The side condition of `spliceCore_refines` cannot be weakened to flat order: `(1,0)` and `(0,2)`
are the same flat index 2 of `demoStore`, yet `_splice` does not act as the (empty) list splice. -/
theorem splice_needs_lex_order :
    flatIdx demoStore.blocks 1 0 = flatIdx demoStore.blocks 0 2 ∧
    spliceCore c2 demoStore [] (1, 0) (0, 2) = .error "IndexError" := by
  constructor
  · decide
  · rfl

/-- Hypotheses of the public mutators: `splice([new], ref=2, del_end=5)`. -/
example : (2 : Nat) ∈ demoStore.ids ∧ (5 : Nat) ∈ demoStore.ids ∧
    demoStore.ids.idxOf 2 ≤ demoStore.ids.idxOf 5 := by decide

/-- A well-formed three-step history on the plain list. -/
example : WFHist [Op.remove 2 (some 5), Op.insertAfter (some 1) [newTok], Op.updateText 9 ['z']]
    (demoToks.map Tok.core) := by
  refine ⟨?_, ?_, ?_, trivial⟩
  · show (2 ∈ _ ∧ _ ∧ _); decide
  · show (FreshFor _ _ ∧ _); exact ⟨⟨⟨by decide, by decide, by decide⟩, by decide⟩, by decide⟩
  · show (9 ∈ _); decide

/-- A foreign token (handle of store 2) is refused by store 1. -/
example : spliceCore c2 demoStore [{ newTok with h := some ⟨2, 1, 0⟩ }] (0, 0) (0, 0)
    = .error "ValueError:already-in-store" :=
  spliceCore_rejects_foreign _ _ _ _ _
    (by intro t ht; simp only [List.mem_singleton] at ht; subst ht; exact Or.inr ⟨_, rfl, by decide⟩)
    ⟨_, List.mem_singleton.2 rfl, _, rfl, by decide⟩

end Autobean.C07
