import Autobean.Model.Store
namespace Autobean.C07
theorem placeholder_true : True := trivial
end Autobean.C07
