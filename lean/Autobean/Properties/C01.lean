/-
C01 — parse then print reproduces the input character for character.

Model: `Autobean/Model/Lex.lean` (`PostLex.process`, `ModelBuilder`, `print_model`).  All theorems are
unbounded (any token list, any tree).  What is assumed about lark (validated per input by
`harness/props/c01.py`, not proved):
  A1  the raw lexer tokens tile the input:            `textOf raw = input`;
  A2  the token leaves of the parse tree are objects of the fed list and are met by the builder in
      strictly increasing index order:               `LeavesIncreasing fed tree`;
  A3  the `[NEVER]` slot of a `transaction` is empty: `txnSlotsOk fed tree` (only needed for the statements
      about sub-models; `Transaction.from_parsed_children` moves a child into that slot's neighbour).
The LALR acceptance set is not modelled: "for every text that parse() accepts" is taken from the real parser.
-/
import Autobean.Proofs.LexPrint
import Autobean.Proofs.LexIndent

namespace Autobean.C01
open Autobean.Lex

/-- The split regex `([\r\n]*)([ \t]*)(;.*)?` (fullmatch) loses no character: the three groups concatenate
to the matched text. -/
theorem split3_concat {s a b c : List Char} (h : split3 s = some (a, b, c)) : a ++ b ++ c = s :=
  Lex.split3_concat h

/-- `PostLex.process` preserves the text: the values of the tokens it yields concatenate to the
concatenation of the values of the tokens it was given. -/
theorem postLex_text {ts out : List LTok} (h : postLex ts = .ok out) : textOf out = textOf ts :=
  Lex.postLex_text h

/-- The non-empty-valued tokens yielded by `PostLex.process` are, in order, exactly the input tokens with
each `_NEWLINE_INDENT_COMMENT` replaced by its non-empty pieces (`_NEWLINE`; then `BLOCK_COMMENT` carrying
indent+comment, or `INDENT`).  Every other token it yields (EOL, INDENT_MARK, DEDENT_MARK) is zero-width. -/
theorem postLex_keeps_nonempty {ts out : List LTok} (h : postLex ts = .ok out) :
    vis out = vis (ts.flatMap pieces) :=
  Lex.postLex_keeps_nonempty h

/-- Every lexer token with a non-empty value is materialised in the store exactly once, in order, with its
type and text; all other store tokens (placeholders, EOL, DEDENT_MARK) have empty text. -/
theorem build_once {toks : List LTok} {t : PTree} {store : List STok} {m : MTree}
    (hA2 : LeavesIncreasing toks t) (h : build toks t = .ok (store, m)) : visS store = vis toks := by
  unfold build at h
  split at h
  · rename_i s mr hr
    simp only [Except.ok.injEq, Prod.mk.injEq] at h
    obtain ⟨rfl, rfl⟩ := h
    exact (buildRaw_spec hr hA2).1
  · cases h

/-- The concatenation of all tokens of the built store is the concatenation of the fed lexer tokens. -/
theorem build_text {toks : List LTok} {t : PTree} {store : List STok} {m : MTree}
    (hA2 : LeavesIncreasing toks t) (h : build toks t = .ok (store, m)) : textOfS store = textOf toks := by
  rw [textOfS_eq_visS, textOf_eq_vis, build_once hA2 h]

/-- Store ids are store positions (`_built_tokens` order). -/
theorem build_ids {toks : List LTok} {t : PTree} {store : List STok} {m : MTree}
    (hA2 : LeavesIncreasing toks t) (h : build toks t = .ok (store, m)) :
    store.map (·.id) = List.range' 0 store.length := by
  unfold build at h
  split at h
  · rename_i s mr hr
    simp only [Except.ok.injEq, Prod.mk.injEq] at h
    obtain ⟨rfl, rfl⟩ := h
    exact (buildRaw_spec hr hA2).2.1
  · cases h

/-- The DFS leaves of the built tree are a strictly increasing sequence of store positions: no store token
is owned by two leaves, children are ordered and do not overlap. -/
theorem build_leaves_sorted {toks : List LTok} {t : PTree} {store : List STok} {m : MTree}
    (hA2 : LeavesIncreasing toks t) (hA3 : txnSlotsOk toks t = true) (h : build toks t = .ok (store, m)) :
    m.leaves.Pairwise (· < ·) ∧ ∀ i ∈ m.leaves, i < store.length := by
  unfold build at h
  split at h
  · rename_i s mr hr
    simp only [Except.ok.injEq, Prod.mk.injEq] at h
    obtain ⟨rfl, rfl⟩ := h
    have hs := buildRaw_spec hr hA2
    have hok : mr.txnOk = true := by simpa [txnSlotsOk, hr] using hA3
    rw [adjust_leaves mr hok]
    exact sublist_range_sorted (hs.2.1 ▸ hs.2.2)
  · cases h

/-- Every sub-model (other than `File`, see `print_file`) whose first leaf is `a` and last leaf is `b` prints
exactly the text of the store tokens at positions `a … b` (and `a ≤ b < store.length`). -/
theorem print_sub {toks : List LTok} {t : PTree} {store : List STok} {m m' : MTree}
    (hA2 : LeavesIncreasing toks t) (hA3 : txnSlotsOk toks t = true) (h : build toks t = .ok (store, m))
    (hsub : m' ∈ m.subs) (hnf : m'.isFile = false) {a b : Nat}
    (ha : m'.firstLeaf = some a) (hb : m'.lastLeaf = some b) :
    a ≤ b ∧ b < store.length ∧ printModel store m' = textOfS ((store.drop a).take (b + 1 - a)) := by
  have hid := build_ids hA2 h
  obtain ⟨hsorted, hrange⟩ := build_leaves_sorted hA2 hA3 h
  have hsl := subs_leaves_sublist m m' hsub
  have hs' : m'.leaves.Pairwise (· < ·) := List.Pairwise.sublist hsl hsorted
  have hab := sorted_head_le_last hs' ha hb
  have hbm : b ∈ m'.leaves := List.mem_of_getLast? hb
  have hbl : b < store.length := hrange b (hsl.subset hbm)
  refine ⟨hab, hbl, ?_⟩
  unfold printModel firstTok lastTok
  rw [hnf]
  simp only [Bool.false_eq_true, if_false, ha, hb]
  rw [segment_range hid (by omega) hbl]

/-- "Every sub-model prints exactly the slice of the input that it spans": with `input` the whole store
text, the print of a sub-model with first/last leaf `a`/`b` is the character slice of `input` that starts at
the character offset of store token `a` and has the length of tokens `a … b`. -/
theorem print_sub_input {toks : List LTok} {t : PTree} {store : List STok} {m m' : MTree}
    (hA2 : LeavesIncreasing toks t) (hA3 : txnSlotsOk toks t = true) (h : build toks t = .ok (store, m))
    (hsub : m' ∈ m.subs) (hnf : m'.isFile = false) {a b : Nat}
    (ha : m'.firstLeaf = some a) (hb : m'.lastLeaf = some b) :
    printModel store m' =
      ((textOf toks).drop (textOfS (store.take a)).length).take
        (textOfS ((store.drop a).take (b + 1 - a))).length := by
  rw [(print_sub hA2 hA3 h hsub hnf ha hb).2.2, ← build_text hA2 h]
  exact textOfS_segment store a (b + 1 - a)

/-- For the `File` root (`first_token`/`last_token` = store ends) printing yields the whole store text. -/
theorem print_file {toks : List LTok} {t : PTree} {store : List STok} {m : MTree}
    (hA2 : LeavesIncreasing toks t) (h : build toks t = .ok (store, m)) (hf : m.isFile = true) :
    printModel store m = textOfS store := by
  have hid := build_ids hA2 h
  unfold printModel firstTok lastTok
  rw [hf]
  simp only [if_true]
  cases hst : store with
  | nil => simp
  | cons x r =>
    have hne : store ≠ [] := by rw [hst]; simp
    have hlen : 0 < store.length := List.length_pos_iff.mpr hne
    have h0 : (store.head?.map (·.id)) = some 0 := by
      have : (store.map (·.id)).head? = some 0 := by
        rw [hid]; cases hl : store.length with
        | zero => omega
        | succ k => simp [List.range'_succ]
      simpa [List.head?_map] using this
    have h1 : (store.getLast?.map (·.id)) = some (store.length - 1) := by
      have : (store.map (·.id)).getLast? = some (store.length - 1) := by
        rw [hid, List.getLast?_range']
        simp; omega
      simpa [List.getLast?_map] using this
    rw [← hst, h0, h1]
    simp only
    rw [segment_range hid hlen (by omega)]
    have : store.length - 1 + 1 - 0 = store.length := by omega
    rw [this]; simp

/-- Parse-then-print for the whole file: if the raw lexer tokens tile the input (A1), the parser was fed
`PostLex.process` of them, the tree's leaves are met in increasing order (A2) and the builder succeeds with a
`File` root, then `print_model(root)` is the input, character for character. -/
theorem parse_print_file {input : List Char} {raw fed : List LTok} {t : PTree} {store : List STok} {m : MTree}
    (hA1 : textOf raw = input) (hpl : postLex raw = .ok fed) (hA2 : LeavesIncreasing fed t)
    (h : build fed t = .ok (store, m)) (hf : m.isFile = true) : printModel store m = input := by
  rw [print_file hA2 h hf, build_text hA2 h, Lex.postLex_text hpl, hA1]

/-- For every parse target: the concatenation of all tokens of the returned model's store is the input. -/
theorem parse_store_text {input : List Char} {raw fed : List LTok} {t : PTree} {store : List STok} {m : MTree}
    (hA1 : textOf raw = input) (hpl : postLex raw = .ok fed) (hA2 : LeavesIncreasing fed t)
    (h : build fed t = .ok (store, m)) : textOfS store = input := by
  rw [build_text hA2 h, Lex.postLex_text hpl, hA1]

/-- For inline targets (identity post-lexer) the same holds with `fed = raw`. -/
theorem parse_store_text_inline {input : List Char} {raw : List LTok} {t : PTree} {store : List STok}
    {m : MTree} (hA1 : textOf raw = input) (hA2 : LeavesIncreasing raw t)
    (h : build raw t = .ok (store, m)) : textOfS store = input := by
  rw [build_text hA2 h, hA1]

/-- A2 in plain words when the tree has no `indent` node: the token-leaf indices met by the builder are
strictly increasing and smaller than the number of fed tokens. -/
theorem leavesIncreasing_plain (toks : List LTok) (t : PTree) (hni : ∀ e ∈ events t, e ≠ Ev.indent) :
    LeavesIncreasing toks t ↔
      (leafIdxs (events t)).Pairwise (· < ·) ∧ ∀ i ∈ leafIdxs (events t), i < toks.length := by
  unfold LeavesIncreasing
  rw [cursorRun_noIndent toks (events t) hni 0]
  simp

/-- Plain A2 suffices when the indents are well placed: if the token leaves met in DFS order have strictly
increasing indices inside the fed list (plain A2) and, at every `indent`/`indent2` node, `_build_indent` finds
an `INDENT` token from the cursor reached there (`findIndent toks cursor = some j`) whose index `j` is strictly
smaller than the index of the first token leaf that follows the node in DFS order (`indentsPlaced`), then the
exact assumption `LeavesIncreasing` holds, and with it every theorem above. -/
theorem leavesIncreasing_of_plain_indent (toks : List LTok) (t : PTree)
    (hinc : (leafIdxs (events t)).Pairwise (· < ·)) (hrange : ∀ i ∈ leafIdxs (events t), i < toks.length)
    (hind : indentsPlaced toks (events t) 0 = true) : LeavesIncreasing toks t := by
  unfold LeavesIncreasing
  rw [cursorRun_iff toks (events t) 0]
  exact ⟨hinc, fun i hi => ⟨Nat.zero_le _, hrange i hi⟩, hind⟩

/-- … and conversely: `LeavesIncreasing` is exactly "plain A2 and well-placed indents" (this subsumes
`leavesIncreasing_plain`: without `indent` events `indentsPlaced` is `true`). -/
theorem leavesIncreasing_iff_plain_indent (toks : List LTok) (t : PTree) :
    LeavesIncreasing toks t ↔
      (leafIdxs (events t)).Pairwise (· < ·) ∧ (∀ i ∈ leafIdxs (events t), i < toks.length) ∧
        indentsPlaced toks (events t) 0 = true := by
  unfold LeavesIncreasing
  rw [cursorRun_iff toks (events t) 0]
  simp

/-! ### Non-vacuity: a concrete document `2000-01-01 *⏎··A:B⏎; c` (transaction, indented posting, trailing
block comment, no final newline) goes through `postLex`, `build`, `printModel`. -/

def exRaw : List LTok :=
  [⟨"DATE", "2000-01-01".toList⟩, ⟨"WHITESPACE", " ".toList⟩, ⟨"TRANSACTION_FLAG", "*".toList⟩,
   ⟨NIC, "\n  ".toList⟩, ⟨"ACCOUNT", "A:B".toList⟩, ⟨NIC, "\n; c".toList⟩]

def exFed : List LTok :=
  [⟨"DATE", "2000-01-01".toList⟩, ⟨"WHITESPACE", " ".toList⟩, ⟨"TRANSACTION_FLAG", "*".toList⟩,
   ⟨"EOL", []⟩, ⟨"_NEWLINE", "\n".toList⟩, ⟨"INDENT_MARK", []⟩, ⟨"INDENT", "  ".toList⟩,
   ⟨"ACCOUNT", "A:B".toList⟩, ⟨"EOL", []⟩, ⟨"DEDENT_MARK", []⟩, ⟨"_NEWLINE", "\n".toList⟩,
   ⟨"BLOCK_COMMENT", "; c".toList⟩]

def exTree : PTree :=
  .node "file" [.node "repeated" [.node "transaction"
    [.absent, .leaf 0, .leaf 2, .absent, .absent, .absent, .node "repeated" [], .absent, .leaf 3,
     .node "indent_mark_" [.leaf 5], .node "repeated" [],
     .node "repeated" [.node "posting" [.absent, .node "indent" [.absent], .absent, .leaf 7, .leaf 8]],
     .leaf 9, .absent]]]

def exInput : List Char := "2000-01-01 *\n  A:B\n; c".toList

example : split3 "\r\n\t ; x\ny".toList = some ("\r\n".toList, "\t ".toList, "; x\ny".toList) := by decide
example : split3 "\n x".toList = none := by decide
example : textOf exRaw = exInput := by decide
example : (postLex exRaw).toOption = some exFed := by decide
example : LeavesIncreasing exFed exTree := by decide +kernel
example : txnSlotsOk exFed exTree = true := by decide +kernel
example : (build exFed exTree).toOption.map (fun r => (r.1.length, r.2.isFile, r.2.leaves)) =
    some (15, true, [0, 1, 3, 4, 5, 6, 7, 9, 10, 11, 12]) := by decide +kernel
example : (build exFed exTree).toOption.map (fun r => printModel r.1 r.2) = some exInput := by decide +kernel
/-- the posting sub-model prints `··A:B` -/
example : (build exFed exTree).toOption.map (fun r => (r.2.subs.map (printModel r.1)).contains "  A:B".toList) =
    some true := by decide +kernel
/-- the hypotheses of `leavesIncreasing_of_plain_indent` hold on the example (it has an `indent` node) … -/
example : (leafIdxs (events exTree)).Pairwise (· < ·) ∧ (∀ i ∈ leafIdxs (events exTree), i < exFed.length) ∧
    indentsPlaced exFed (events exTree) 0 = true ∧ Ev.indent ∈ events exTree := by decide +kernel
/-- … and `indentsPlaced` is not implied by plain A2: the posting's account leaf moved in front of the `INDENT`
token (index 6) keeps the leaf indices increasing but the cursor would have to go backwards. -/
example : let t := PTree.node "posting" [.node "indent" [.absent], .leaf 4, .leaf 7]
    (leafIdxs (events t)).Pairwise (· < ·) ∧ indentsPlaced exFed (events t) 0 = false ∧
      ¬ LeavesIncreasing exFed t := by decide +kernel
/-- a tree that violates A2 (a leaf behind the cursor) really duplicates text: A2 is not redundant. -/
example : (build exFed (.node "file" [.leaf 2, .leaf 0])).toOption.map (fun r => textOfS r.1 == textOf exFed) =
    some false := by decide +kernel

end Autobean.C01
