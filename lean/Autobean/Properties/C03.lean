/-
C03 — adding, removing or replacing a child leaves everything else untouched.

All statements are LOCAL (DESIGN.md §3.4): the document store is `L ++ S ++ R` with `S` the span of the
parent model and ARBITRARY `L`, `R`; the conclusion always has the form `store' = L ++ S' ++ R` with `S'`
given explicitly, so everything outside the parent — identity, order and text of every token — is unchanged,
and inside the parent exactly the stated window changes.

Models: `Model/Seq.lean` (abstract store; refined by the real blocked store, C07), `Model/Slots.lean`
(`fields.py` optional_left/right `_create_node`/`_remove_node`, `properties.py` `replace_node`),
`Model/Repeated.lean` (`RepeatedNodeWrapper`, token level).  Tied to the real code by the lock-step
correspondence `harness/corr_repeated.py` (driver prefix `R`).
-/
import Autobean.Proofs.SlotsFrame
import Autobean.Proofs.RepShape
import Autobean.Proofs.RepExt
import Autobean.Proofs.RepDropIdx

namespace Autobean.C03
open Autobean.Seq Autobean.Slots Autobean.Rep

/-! ## 1. The abstract store: every operation changes only the named window -/

/-- `insert_after(t, xs)`: `store = p ++ t :: q` becomes `p ++ t :: xs ++ q`. -/
theorem insertAfter_frame {p q : List Tk} {t : Tk} (xs : List Tk) (h : Distinct (p ++ t :: q)) :
    insertAfter (some t.id) xs (p ++ t :: q) = .ok (p ++ t :: (xs ++ q)) :=
  Seq.insertAfter_frame xs h

/-- `insert_before(t, xs)`: `store = p ++ t :: q` becomes `p ++ xs ++ t :: q`. -/
theorem insertBefore_frame {p q : List Tk} {t : Tk} (xs : List Tk) (h : Distinct (p ++ t :: q)) :
    insertBefore (some t.id) xs (p ++ t :: q) = .ok (p ++ (xs ++ t :: q)) :=
  Seq.insertBefore_frame xs h

/-- `splice(xs, first, last)`: `store = a ++ old ++ b` (old = the inclusive range) becomes `a ++ xs ++ b`. -/
theorem spliceRange_frame {a old b : List Tk} {f l : Tk} (xs : List Tk)
    (hf : old.head? = some f) (hl : old.getLast? = some l) (h : Distinct (a ++ old ++ b)) :
    spliceRange f.id l.id xs (a ++ old ++ b) = .ok (a ++ xs ++ b) :=
  Seq.spliceRange_frame xs hf hl h

/-- `remove(first, last)`: `store = a ++ old ++ b` becomes `a ++ b`. -/
theorem removeRange_frame {a old b : List Tk} {f l : Tk}
    (hf : old.head? = some f) (hl : old.getLast? = some l) (h : Distinct (a ++ old ++ b)) :
    removeRange f.id l.id (a ++ old ++ b) = .ok (a ++ b) :=
  Seq.removeRange_frame hf hl h

/-- Conversely, WHATEVER `splice` returns differs from its input by one contiguous window only (no
distinctness assumption). -/
theorem spliceRange_only_window {f l : Nat} {xs s s' : List Tk} (h : spliceRange f l xs s = .ok s') :
    ∃ a old b, s = a ++ old ++ b ∧ s' = a ++ xs ++ b :=
  let ⟨a, old, b, h1, h2, _⟩ := Seq.spliceRange_sound h
  ⟨a, old, b, h1, h2⟩

/-- A sibling is a contiguous block of the parent lying before or after the edited window; it is found,
token for token (identity, order, text), in the result. -/
theorem sibling_unchanged {a b old new sib : List Tk} (h : sib <:+: a ∨ sib <:+: b) :
    sib <:+: a ++ old ++ b → sib <:+: a ++ new ++ b := by
  intro _
  rcases h with ⟨u, w, e⟩ | ⟨u, w, e⟩
  · exact ⟨u, w ++ new ++ b, by rw [← e]; simp⟩
  · exact ⟨a ++ new ++ u, w, by rw [← e]; simp⟩

/-! ## 2. Optional and required slots -/

/-- Creating an optional-left child: with the parent span `S = a ++ p :: b` (`p` the pivot),
`store' = L ++ (a ++ p :: seps ++ child ++ b) ++ R`. -/
theorem create_frame {L R a b : List Tk} {p : Tk} (seps child : List Tk)
    (h : Distinct (L ++ (a ++ p :: b) ++ R)) :
    createLeft (L ++ (a ++ p :: b) ++ R) p.id seps child
      = .ok (L ++ (a ++ p :: (seps ++ child ++ b)) ++ R) :=
  createLeft_frame seps child h

/-- Creating an optional-right child: `S = a ++ p :: b` becomes `a ++ child ++ seps ++ p :: b`. -/
theorem create_right_frame {L R a b : List Tk} {p : Tk} (seps child : List Tk)
    (h : Distinct (L ++ (a ++ p :: b) ++ R)) :
    createRight (L ++ (a ++ p :: b) ++ R) p.id seps child
      = .ok (L ++ (a ++ (child ++ seps ++ p :: b)) ++ R) :=
  createRight_frame seps child h

/-- Removing an optional-left child: what disappears is exactly the tokens between the pivot and the child
(`gap`, whatever it is) plus the child. -/
theorem remove_frame {L R a b gap child : List Tk} {p c : Tk} (hc : child.getLast? = some c)
    (h : Distinct (L ++ (a ++ p :: (gap ++ child ++ b)) ++ R)) :
    removeLeft (L ++ (a ++ p :: (gap ++ child ++ b)) ++ R) p.id c.id = .ok (L ++ (a ++ p :: b) ++ R) :=
  removeLeft_frame hc h

/-- Removing an optional-right child: exactly `child ++ gap` disappears. -/
theorem remove_right_frame {L R a b gap child : List Tk} {p c : Tk} (hc : child.head? = some c)
    (h : Distinct (L ++ (a ++ (child ++ gap ++ p :: b)) ++ R)) :
    removeRight (L ++ (a ++ (child ++ gap ++ p :: b)) ++ R) p.id c.id = .ok (L ++ (a ++ p :: b) ++ R) :=
  removeRight_frame hc h

/-- Replacing a child (required slots, and optional slots that are occupied): `S = a ++ old ++ b` becomes
`a ++ new ++ b`; no separator is touched. -/
theorem replace_frame {L R a b old : List Tk} {f l : Tk} (new : List Tk)
    (hf : old.head? = some f) (hl : old.getLast? = some l) (h : Distinct (L ++ (a ++ old ++ b) ++ R)) :
    replaceNode (L ++ (a ++ old ++ b) ++ R) f.id l.id new = .ok (L ++ (a ++ new ++ b) ++ R) :=
  replaceNode_frame new hf hl h

/-- Create then remove is the identity on the store (left). -/
theorem create_remove_inverse {s s' seps child : List Tk} {p : Nat} {c : Tk}
    (hcreate : createLeft s p seps child = .ok s') (hc : child.getLast? = some c) (hd : Distinct s') :
    removeLeft s' p c.id = .ok s := by
  obtain ⟨a, t, b, h1, h2, h3⟩ := Seq.insertAfter_sound hcreate
  subst h1 h2 h3
  have hd' : Distinct ([] ++ (a ++ t :: (seps ++ child ++ b)) ++ []) := by simpa using hd
  have := removeLeft_frame (L := []) (R := []) hc hd'
  simpa using this

/-- Create then remove is the identity on the store (right). -/
theorem create_remove_inverse_right {s s' seps child : List Tk} {p : Nat} {c : Tk}
    (hcreate : createRight s p seps child = .ok s') (hc : child.head? = some c) (hd : Distinct s') :
    removeRight s' p c.id = .ok s := by
  obtain ⟨a, t, b, h1, h2, h3⟩ := Seq.insertBefore_sound hcreate
  subst h1 h2 h3
  have hd' : Distinct ([] ++ (a ++ (child ++ seps ++ t :: b)) ++ []) := by simpa using hd
  have := removeRight_frame (L := []) (R := []) hc hd'
  simpa using this

/-! ## 3. Repeated slots

The region is `ph :: gap₀ ++ item₀ ++ … ++ item_{n-1}` = `layout ph segs`, `segs : List (gap × item)`;
`RegionWF` says the store is `L ++ layout ph segs ++ R` with distinct ids, items non-empty, and
`items = spans segs` (the Python `items` list, as first/last token ids).  Every theorem returns the new
store as `L ++ layout ph segs' ++ R` with `segs'` explicit and the new `items` as `spans segs'`. -/

/-- `insert(index, v)`: the store becomes `L ++ layout ph segs' ++ R`; the items are the Python-list result
`items[:k] + [v] + items[k:]`; no old item changes; and (three shapes, `insertSegs_inner/_empty/_front`)
the only new gap is a fresh copy of `separators` (of `separators_before` when the list was empty), all other
gaps are old gaps. -/
theorem rep_insert_frame {c : Cfg} {st : St} {L R : List Tk} {ph : Tk} {pre post : List Seg}
    (index : Int) (v : List Tk) (wf : RegionWF c st.store st.items L R ph (pre ++ post))
    (hk : insertPos index st.items.length = pre.length) :
    ∃ segs' ctr', insert c st index v = .ok ⟨L ++ layout ph segs' ++ R, spans segs', ctr'⟩ ∧
      segs' = insertSegs c st.ctr pre post [v] ∧
      itemsOf segs' = itemsOf pre ++ [v] ++ itemsOf post := by
  exact ⟨_, _, insert_region index v wf hk, rfl, insertSegs_items _ _ _ _ _⟩

/-- `append(v)` / `extend(vs)`: as `insert` at the end, for a whole batch. -/
theorem rep_extend_frame {c : Cfg} {st : St} {L R : List Tk} {ph : Tk} {segs : List Seg}
    (vs : List (List Tk)) (wf : RegionWF c st.store st.items L R ph segs) :
    ∃ segs' ctr', extend c st vs = .ok ⟨L ++ layout ph segs' ++ R, spans segs', ctr'⟩ ∧
      segs' = insertSegs c st.ctr segs [] vs ∧ itemsOf segs' = itemsOf segs ++ vs := by
  exact ⟨_, _, extend_region vs wf, rfl, by rw [insertSegs_items]; simp [itemsOf]⟩

theorem rep_append_frame {c : Cfg} {st : St} {L R : List Tk} {ph : Tk} {segs : List Seg}
    (v : List Tk) (wf : RegionWF c st.store st.items L R ph segs) :
    ∃ segs' ctr', append c st v = .ok ⟨L ++ layout ph segs' ++ R, spans segs', ctr'⟩ ∧
      segs' = insertSegs c st.ctr segs [] [v] ∧ itemsOf segs' = itemsOf segs ++ [v] := by
  exact ⟨_, _, append_region v wf, rfl, by rw [insertSegs_items]; simp [itemsOf]⟩

/-- Shapes of `insertSegs`: which gaps are new.  (`pre ≠ []`) old segments unchanged, each new item preceded by
a fresh copy of `separators`. -/
theorem rep_insert_gaps_inner (c : Cfg) (ctr : Nat) (sg : Seg) (pre' post : List Seg) (vs : List (List Tk)) :
    ∃ news, insertSegs c ctr (sg :: pre') post vs = (sg :: pre') ++ news ++ post ∧
      itemsOf news = vs ∧ ∀ n ∈ news, IsCopy c.seps n.1 :=
  insertSegs_inner c ctr sg pre' post vs

/-- (previously EMPTY list) `separators_before` before the first new item, `separators` before the others. -/
theorem rep_insert_gaps_empty (c : Cfg) (ctr : Nat) (v : List Tk) (vs : List (List Tk)) :
    ∃ sB news, insertSegs c ctr [] [] (v :: vs) = (sB, v) :: news ∧ IsCopy c.sepsBefore sB ∧
      itemsOf news = vs ∧ ∀ n ∈ news, IsCopy c.seps n.1 :=
  insertSegs_empty c ctr v vs

/-- (at the FRONT of a non-empty list) the old first gap stays in place, now in front of the first new item;
every later new item and the old first item get a fresh copy of `separators`; the rest is untouched.
This is the clause that failed on the old tree for `[0:0] = [A, B]` (`A, , BUSD`). -/
theorem rep_insert_gaps_front (c : Cfg) (ctr : Nat) (sg0 : Seg) (post' : List Seg) (vs : List (List Tk)) :
    ∃ head ss, insertSegs c ctr [] (sg0 :: post') vs = head ++ post' ∧
      itemsOf head = vs ++ [sg0.2] ∧
      gapsOf head = sg0.1 :: ss ∧ ss.length = vs.length ∧ ∀ s ∈ ss, IsCopy c.seps s :=
  insertSegs_front c ctr sg0 post' vs

/-- `pop(index)`, `del self[index]`, `del self[a:b]` (step 1) and `clear()`: the store becomes
`L ++ layout ph (deleteSegs pre mid post) ++ R`, the items are `items[:a] + items[b:]`, every surviving item
keeps its token list, no token is created; what disappears is the addressed items with the gaps in front of
them — or, at the very front of a list that stays non-empty, with the gaps behind them
(`rep_delete_shape`). -/
theorem rep_delete_frame {c : Cfg} {st : St} {L R : List Tk} {ph : Tk} {pre mid post : List Seg}
    (start stop step : Option Int) {s0 e0 : Int}
    (wf : RegionWF c st.store st.items L R ph (pre ++ mid ++ post))
    (hs : sliceIndices start stop step st.items.length = .ok (s0, e0, 1))
    (hpre : s0 = (pre.length : Int))
    (he : (if e0 < s0 then s0 else e0) = ((pre.length + mid.length : Nat) : Int)) :
    ∃ segs' ctr', delSlice c st start stop step = .ok ⟨L ++ layout ph segs' ++ R, spans segs', ctr'⟩ ∧
      segs' = deleteSegs pre mid post ∧ itemsOf segs' = itemsOf pre ++ itemsOf post := by
  exact ⟨_, _, delSlice_region start stop step wf hs hpre he, rfl, deleteSegs_items _ _ _⟩

theorem rep_delete_int_frame {c : Cfg} {st : St} {L R : List Tk} {ph : Tk} {pre post : List Seg} {sg : Seg}
    (index : Int) (wf : RegionWF c st.store st.items L R ph (pre ++ [sg] ++ post))
    (hk : pyIndex index st.items.length = some pre.length) :
    ∃ segs' ctr', delItemInt c st index = .ok ⟨L ++ layout ph segs' ++ R, spans segs', ctr'⟩ ∧
      segs' = deleteSegs pre [sg] post ∧ itemsOf segs' = itemsOf pre ++ itemsOf post := by
  exact ⟨_, _, delItemInt_region index wf hk, rfl, deleteSegs_items _ _ _⟩

theorem rep_pop_frame {c : Cfg} {st : St} {L R : List Tk} {ph : Tk} {pre post : List Seg} {sg : Seg}
    (index : Int) (wf : RegionWF c st.store st.items L R ph (pre ++ [sg] ++ post))
    (hk : pyIndex index st.items.length = some pre.length) :
    pop c st index =
      .ok (⟨L ++ layout ph (deleteSegs pre [sg] post) ++ R, spans (deleteSegs pre [sg] post), st.ctr⟩, spanOf sg.2) :=
  pop_region index wf hk

theorem rep_clear_frame {c : Cfg} {st : St} {L R : List Tk} {ph : Tk} {segs : List Seg}
    (wf : RegionWF c st.store st.items L R ph segs) :
    clear c st = .ok ⟨L ++ layout ph [] ++ R, [], st.ctr⟩ :=
  clear_region wf

theorem rep_delete_shape (pre mid post : List Seg) :
    deleteSegs pre mid post = pre ++ post ∨
    (pre = [] ∧ ∃ sg0 mid' sgs post', mid = sg0 :: mid' ∧ post = sgs :: post' ∧
      deleteSegs pre mid post = (sg0.1, sgs.2) :: post') :=
  deleteSegs_shape pre mid post

/-- A deletion leaves a well-formed region (so deletions compose, see `rep_delete_fold`). -/
theorem rep_delete_wf {c : Cfg} {store : List Tk} {items : List Span} {L R : List Tk} {ph : Tk}
    {pre mid post : List Seg} (wf : RegionWF c store items L R ph (pre ++ mid ++ post)) :
    RegionWF c (L ++ layout ph (deleteSegs pre mid post) ++ R) (spans (deleteSegs pre mid post)) L R ph
      (deleteSegs pre mid post) := by
  have := wf.delete
  rwa [← deleteSegs_spans] at this

/-- `self[index] = v` (int index): exactly the tokens of the addressed item are replaced; its gap and every
other segment are unchanged. -/
theorem rep_set_int_frame {c : Cfg} {st : St} {L R : List Tk} {ph : Tk} {pre post : List Seg} {sg : Seg}
    (index : Int) (v : List Tk) (wf : RegionWF c st.store st.items L R ph (pre ++ [sg] ++ post))
    (hk : pyIndex index st.items.length = some pre.length) :
    setItemInt c st index v =
      .ok ⟨L ++ layout ph (pre ++ [(sg.1, v)] ++ post) ++ R, spans (pre ++ [(sg.1, v)] ++ post), st.ctr⟩ :=
  setItemInt_region index v wf hk

/-- `self[start:stop] = vs` (step 1 or `None`, incl. the collapsed reversed range): the store becomes
`L ++ layout ph segs' ++ R`, the items are the Python-list result `items[:a] + vs + items[b:]`, and
`segs' = setSegs …` whose three shapes are `rep_set_gaps_inner/_empty/_front`: every NEW gap is exactly a
fresh copy of `separators` (`separators_before` before the first item of a list that is or has become empty),
every other gap is an old gap, unchanged. -/
theorem rep_set_frame {c : Cfg} {st : St} {L R : List Tk} {ph : Tk} {pre mid post : List Seg}
    (start stop step : Option Int) (vs : List (List Tk)) {s0 e0 : Int}
    (wf : RegionWF c st.store st.items L R ph (pre ++ mid ++ post))
    (hs : sliceIndices start stop step st.items.length = .ok (s0, e0, 1))
    (hpre : s0 = (pre.length : Int))
    (he : (if e0 < s0 then s0 else e0) = ((pre.length + mid.length : Nat) : Int)) :
    ∃ segs' ctr', setSlice c st start stop step vs = .ok ⟨L ++ layout ph segs' ++ R, spans segs', ctr'⟩ ∧
      segs' = setSegs c st.ctr pre mid post vs ∧
      itemsOf segs' = itemsOf pre ++ vs ++ itemsOf post := by
  exact ⟨_, _, setSlice_region start stop step vs wf hs hpre he, rfl, setSegs_items _ _ _ _ _ _⟩

theorem rep_set_gaps_inner (c : Cfg) (ctr : Nat) (sg : Seg) (pre' mid post : List Seg) (vs : List (List Tk)) :
    ∃ news, setSegs c ctr (sg :: pre') mid post vs = (sg :: pre') ++ news ++ post ∧
      itemsOf news = vs ∧ ∀ n ∈ news, IsCopy c.seps n.1 :=
  setSegs_inner c ctr sg pre' mid post vs

theorem rep_set_gaps_empty (c : Cfg) (ctr : Nat) (mid : List Seg) (v : List Tk) (vs : List (List Tk)) :
    ∃ sB news, setSegs c ctr [] mid [] (v :: vs) = (sB, v) :: news ∧ IsCopy c.sepsBefore sB ∧
      itemsOf news = vs ∧ ∀ n ∈ news, IsCopy c.seps n.1 :=
  setSegs_empty c ctr mid v vs

theorem rep_set_gaps_front (c : Cfg) (ctr : Nat) (mid : List Seg) (sgs : Seg) (post' : List Seg)
    (vs : List (List Tk)) :
    ∃ head ss, setSegs c ctr [] mid (sgs :: post') vs = head ++ post' ∧
      itemsOf head = vs ++ [sgs.2] ∧
      gapsOf head = firstGap (mid ++ [sgs]) :: ss ∧ ss.length = vs.length ∧ ∀ s ∈ ss, IsCopy c.seps s :=
  setSegs_front c ctr mid sgs post' vs

/-- `rep_py_list` (step-1 part): every `(start, stop)` with step 1 / `None` determines a decomposition
`segs = pre ++ mid ++ post` satisfying the hypotheses of `rep_set_frame` / `rep_delete_frame`; so those
theorems apply to EVERY such slice, and the resulting item list is `items[:a] + vs + items[b:]` with
`(a, b)` CPython's `slice.indices` (reference definition `sliceIndices`, compared with real `list` on every
explored index by the correspondence). -/
theorem rep_py_list {start stop step : Option Int} (segs : List Seg) {s e : Int}
    (h : sliceIndices start stop step segs.length = .ok (s, e, 1)) :
    ∃ pre mid post, segs = pre ++ mid ++ post ∧ s = (pre.length : Int) ∧
      (if e < s then s else e) = ((pre.length + mid.length : Nat) : Int) :=
  slice_decomposition segs h

/-! ### Extended slices, preservation of well-formedness, sequences of operations -/

/-- An insertion of a batch of free-standing values (distinct tokens unknown to the store, ids below the
allocation counter, no empty value) leaves a WELL-FORMED region with the same frame, and the counter stays
above every id; so insertions compose. -/
theorem rep_insert_wf {c : Cfg} {store : List Tk} {items : List Span} {L R : List Tk} {ph : Tk}
    {pre post : List Seg} {ctr : Nat} {vs : List (List Tk)}
    (wf : RegionWF c store items L R ph (pre ++ post)) (hc : CtrOK store ctr) (hv : ValsOK store ctr vs) :
    RegionWF c (L ++ layout ph (insertSegs c ctr pre post vs) ++ R) (spans (insertSegs c ctr pre post vs)) L R ph
        (insertSegs c ctr pre post vs) ∧
      CtrOK (L ++ layout ph (insertSegs c ctr pre post vs) ++ R) (insertCtr c ctr pre post vs) :=
  wf.insert hc hv

/-- `self[a:b:k] = values`, `k ≠ 1`, one iteration of `for i, value in zip(r, values)`: exactly the effect of
`self[i:i+1] = [value]` (`setSegs … [sg] … [v]`, shapes `rep_set_gaps_*`), with the loop-wide
`separators_before_last`. -/
theorem rep_set_ext_step {c : Cfg} {st : St} {L R : List Tk} {ph : Tk} {pre post : List Seg} {sg : Seg}
    (v : List Tk) (sbl : Option Nat)
    (wf : RegionWF c st.store st.items L R ph (pre ++ [sg] ++ post))
    (hsbl : pre = [] → post ≠ [] → SblFor L ph ([sg] ++ post) sbl) :
    ∃ store1, delTokens c st.store st.items pre.length (pre.length + 1) = .ok store1 ∧
      insertTokens c store1 st.items st.ctr pre.length [v] (some (st.items.length - 1)) sbl
        = .ok (L ++ layout ph (setSegs c st.ctr pre [sg] post [v]) ++ R, setCtr c st.ctr pre [sg] post [v]) ∧
      st.items.set pre.length (spanOf v) = spans (setSegs c st.ctr pre [sg] post [v]) :=
  extStep_region v sbl wf hsbl

/-- `self[a:b:k] = values` with `k ≠ 1` (every `a`, `b`, every step other than 1, sizes matching): the result
is a well-formed region in the SAME frame `L … R` with the same number of items; the item token lists are the
Python result (`items[i] = v` along the range, every other item untouched); every gap is an old gap or a copy of
the declared separators. -/
theorem rep_set_ext_frame {c : Cfg} {st : St} {L R : List Tk} {ph : Tk} {segs : List Seg}
    (start stop step : Option Int) (vs : List (List Tk)) {s e k : Int}
    (wf : RegionWF c st.store st.items L R ph segs) (hc : CtrOK st.store st.ctr)
    (hs : sliceIndices start stop step st.items.length = .ok (s, e, k)) (hk : k ≠ 1)
    (hlen : (rangeElems s e k).length = vs.length) (hv : ValsOK st.store st.ctr vs) :
    ∃ st' segs', setSlice c st start stop step vs = .ok st' ∧
      RegionWF c st'.store st'.items L R ph segs' ∧ CtrOK st'.store st'.ctr ∧
      segs'.length = segs.length ∧
      itemsOf segs' = setMany (itemsOf segs) ((rangeElems s e k).zip vs) ∧ GapsFrom c segs segs' :=
  setSlice_ext_region start stop step vs wf hc hs hk hlen hv

/-- … and a size mismatch is refused before anything is touched. -/
theorem rep_set_ext_size_refused {c : Cfg} {st : St} {L R : List Tk} {ph : Tk} {segs : List Seg}
    (start stop step : Option Int) (vs : List (List Tk)) {s e k : Int}
    (wf : RegionWF c st.store st.items L R ph segs)
    (hs : sliceIndices start stop step st.items.length = .ok (s, e, k)) (hk : k ≠ 1)
    (hlen : (rangeElems s e k).length ≠ vs.length) :
    setSlice c st start stop step vs = .error "ValueError:size" :=
  setSlice_ext_size start stop step vs wf hs hk hlen

/-- `rep_py_list` (extended part): the elements of `range(len)[a:b:k]` are distinct positions below `len`. -/
theorem rep_py_range {start stop step : Option Int} {len : Nat} {s e k : Int}
    (h : sliceIndices start stop step len = .ok (s, e, k)) :
    (∀ i ∈ rangeElems s e k, i < len) ∧ (rangeElems s e k).Nodup :=
  ⟨rangeElems_lt h, rangeElems_nodup h⟩

/-- Every gap after a step-1 slice assignment is an old gap or a copy of the declared separators (aggregate
form of `rep_set_gaps_*`). -/
theorem rep_set_gaps (c : Cfg) (ctr : Nat) (pre mid post : List Seg) (vs : List (List Tk)) :
    GapsFrom c (pre ++ mid ++ post) (setSegs c ctr pre mid post vs) :=
  setSegs_gapsFrom c ctr pre mid post vs

/-- `_fold`: ONE operation (`insert`, `append`, `extend`, `pop`, `del [i]`, `del [a:b]`, `[i] = v`, `[a:b] = vs`,
`clear`; step 1) on a state satisfying the invariant `Inv` (a well-formed region inside the frame `L … R`, ids
below the counter), with arguments that are free-standing and new, yields a state satisfying `Inv` with the SAME
`L`, `R`, placeholder. -/
theorem rep_op_preserves {c : Cfg} {L R : List Tk} {ph : Tk} {st st' : St} {op : Op}
    (hinv : Inv c L R ph st) (hok : OpOK st op) (h : applyOp c st op = .ok st') : Inv c L R ph st' :=
  op_preserves hinv hok h

/-- `_fold`: hence every history of such operations leaves everything outside the parent's region untouched:
the final store is again `L ++ layout ph segs' ++ R`. -/
theorem rep_ops_fold {c : Cfg} {L R : List Tk} {ph : Tk} {st st' : St} {ops : List Op}
    (hinv : Inv c L R ph st) (hok : OpsOK c st ops) (h : applyOps c st ops = .ok st') :
    ∃ segs', st'.store = L ++ layout ph segs' ++ R ∧ RegionWF c st'.store st'.items L R ph segs' := by
  obtain ⟨segs', wf, _⟩ := ops_preserve hinv hok h
  exact ⟨segs', wf.store_eq, wf⟩

/-- `drop_many(indexes)` (behind `del self[a:b:k]` with `k ≠ 1` and the filtered views) for distinct in-range
indexes.  The Python sorts the indexes downwards, groups them into runs and deletes run after run with the
`items` list of BEFORE the loop, then filters `items` by "index not in indexes".  Result: a well-formed region in
the SAME frame `L … R`; the returned `items` are its spans; the item token lists are the Python-list result
(every surviving item untouched); no gap is created, every remaining gap is an old gap. -/
theorem rep_dropMany_frame {c : Cfg} {st : St} {L R : List Tk} {ph : Tk} {S : List Seg} (idxs : List Nat)
    (wf : RegionWF c st.store st.items L R ph S) (hnd : idxs.Nodup) (hlt : ∀ i ∈ idxs, i < S.length) :
    ∃ segs', dropMany c st idxs = .ok ⟨L ++ layout ph segs' ++ R, spans segs', st.ctr⟩ ∧
      RegionWF c (L ++ layout ph segs' ++ R) (spans segs') L R ph segs' ∧
      itemsOf segs' = keepIdx (fun j => idxs.contains j) 0 (itemsOf S) ∧
      ∀ g ∈ gapsOf segs', g ∈ gapsOf S :=
  dropMany_full idxs wf hnd hlt

theorem dedup_cons (a : Nat) (l : List Nat) :
    dedup (a :: l) = if (dedup l).contains a then dedup l else a :: dedup l := rfl

theorem dedup_mem (l : List Nat) (x : Nat) : x ∈ dedup l ↔ x ∈ l := by
  induction l with
  | nil => simp [dedup]
  | cons a l ih =>
    rw [dedup_cons]
    by_cases h : (dedup l).contains a = true
    · rw [if_pos h]
      have ha : a ∈ dedup l := List.contains_iff_mem.1 h
      constructor
      · intro hx; exact List.mem_cons_of_mem _ (ih.1 hx)
      · intro hx
        rcases List.mem_cons.1 hx with hxa | hx
        · subst hxa; exact ha
        · exact ih.2 hx
    · rw [if_neg h]
      simp only [List.mem_cons, ih]

theorem dedup_nodup (l : List Nat) : (dedup l).Nodup := by
  induction l with
  | nil => simp [dedup]
  | cons a l ih =>
    rw [dedup_cons]
    by_cases h : (dedup l).contains a = true
    · rw [if_pos h]; exact ih
    · rw [if_neg h]
      refine List.nodup_cons.2 ⟨?_, ih⟩
      intro hm
      exact h (List.contains_iff_mem.2 hm)

theorem normIdxs_lt {n : Nat} : ∀ {idxs : List Int} {ks : List Nat}, normIdxs n idxs = some ks → ∀ k ∈ ks, k < n := by
  intro idxs
  induction idxs with
  | nil => intro ks h k hk; simp [normIdxs] at h; subst h; cases hk
  | cons i is ih =>
    intro ks h k hk
    simp only [normIdxs] at h
    cases hp : pyIndex i n with
    | none => simp [hp] at h
    | some k0 =>
      cases hr : normIdxs n is with
      | none => simp [hp, hr] at h
      | some ks0 =>
        simp [hp, hr] at h
        subst h
        rcases List.mem_cons.1 hk with rfl | hk
        · unfold pyIndex at hp
          split at hp
          · split at hp
            · injection hp with hp; omega
            · cases hp
          · split at hp
            · injection hp with hp; omega
            · cases hp
        · exact ih hr k hk

/-- **`drop_many(indexes)` for ANY indexes** (negative, repeated, in any order, out of range): either one of them is out of
range and the call is refused - in the model before anything happened, in the source because the range check is a loop
of its own in front of the first deletion (`Obligations/Refusals`) - or the designated items, each once, are removed in
the same frame, every surviving item untouched and every remaining gap an old gap. -/
theorem rep_dropManyPub_frame {c : Cfg} {st : St} {L R : List Tk} {ph : Tk} {S : List Seg} (idxs : List Int)
    (wf : RegionWF c st.store st.items L R ph S) (hlen : st.items.length = S.length) :
    (normIdxs st.items.length idxs = none ∧ dropManyPub c st idxs = .error "IndexError") ∨
    ∃ ks segs', normIdxs st.items.length idxs = some ks ∧
      dropManyPub c st idxs = .ok ⟨L ++ layout ph segs' ++ R, spans segs', st.ctr⟩ ∧
      RegionWF c (L ++ layout ph segs' ++ R) (spans segs') L R ph segs' ∧
      itemsOf segs' = keepIdx (fun j => ks.contains j) 0 (itemsOf S) ∧
      ∀ g ∈ gapsOf segs', g ∈ gapsOf S := by
  cases hn : normIdxs st.items.length idxs with
  | none => exact Or.inl ⟨rfl, by simp [dropManyPub, hn]⟩
  | some ks =>
    refine Or.inr ⟨ks, ?_⟩
    have hlt : ∀ i ∈ dedup ks, i < S.length := by
      intro i hi
      have := normIdxs_lt hn i ((dedup_mem ks i).1 hi)
      omega
    obtain ⟨segs', h1, h2, h3, h4⟩ := rep_dropMany_frame (dedup ks) wf (dedup_nodup ks) hlt
    refine ⟨segs', rfl, by simp [dropManyPub, hn, h1], h2, ?_, h4⟩
    rw [h3]
    have : (fun j => (dedup ks).contains j) = fun j => ks.contains j := by
      funext j
      by_cases hj : j ∈ ks
      · simp [hj, (dedup_mem ks j).2 hj]
      · have : j ∉ dedup ks := fun h => hj ((dedup_mem ks j).1 h)
        simp [hj, this]
    rw [this]

/-- `del self[a:b:k]` with `k ≠ 1` (every `a`, `b`, every such step). -/
theorem rep_delete_ext_frame {c : Cfg} {st : St} {L R : List Tk} {ph : Tk} {S : List Seg}
    (start stop step : Option Int) {s e k : Int}
    (wf : RegionWF c st.store st.items L R ph S)
    (hs : sliceIndices start stop step st.items.length = .ok (s, e, k)) (hk : k ≠ 1) :
    ∃ segs', delSlice c st start stop step = .ok ⟨L ++ layout ph segs' ++ R, spans segs', st.ctr⟩ ∧
      RegionWF c (L ++ layout ph segs' ++ R) (spans segs') L R ph segs' ∧
      itemsOf segs' = keepIdx (fun j => (rangeElems s e k).contains j) 0 (itemsOf S) ∧
      ∀ g ∈ gapsOf segs', g ∈ gapsOf S :=
  delSlice_ext_full start stop step wf hs hk

/-- The explicit form of the region after `drop_many`: the runs `(hi, lo)` removed one after the other. -/
theorem rep_dropMany_items (c : Cfg) (T : List Seg) (runs : List (Nat × Nat)) :
    itemsOf (dropRuns T runs) = removeIvs (itemsOf T) runs ∧ ∀ g ∈ gapsOf (dropRuns T runs), g ∈ gapsOf T :=
  ⟨dropRuns_items T runs, dropRuns_gaps c T runs⟩

/-- `_del_tokens` reads the stale `items` only where it is still accurate: with `items` describing
`pre ++ mid ++ postS` while the store holds `pre ++ mid ++ post`, agreeing on the first element behind the
window, the deletion is the one of an up-to-date list. -/
theorem rep_delete_stale {c : Cfg} {store : List Tk} {items : List Span} {L R : List Tk} {ph : Tk}
    {pre mid post postS : List Seg}
    (hstore : store = L ++ layout ph (pre ++ mid ++ post) ++ R) (hdist : Distinct store) (hph : ph.id = c.ph)
    (hne : ItemsNonempty (pre ++ mid ++ post)) (hitems : items = spans (pre ++ mid ++ postS))
    (hhead : post.head? = postS.head?) (hmid : mid ≠ []) :
    delTokens c store items pre.length (pre.length + mid.length)
      = .ok (L ++ layout ph (deleteSegs pre mid post) ++ R) :=
  delTokens_stale hstore hdist hph hne hitems hhead hmid

/-! ## 4. Non-vacuity: `2000-01-01 open Assets:A USD, EUR` -/

section Example
/-- kinds: 1 date, 2 whitespace, 3 `open`, 4 account, 5 placeholder, 6 currency, 7 comma, 8 eol;
texts abbreviated to one character. -/
def exL : List Tk := [⟨1, 1, ['d']⟩, ⟨2, 2, [' ']⟩, ⟨3, 3, ['o']⟩, ⟨4, 2, [' ']⟩, ⟨5, 4, ['a']⟩]
def exPh : Tk := ⟨6, 5, []⟩
def exSegs : List Seg := [([⟨7, 2, [' ']⟩], [⟨8, 6, ['U']⟩]), ([⟨9, 7, [',']⟩, ⟨10, 2, [' ']⟩], [⟨11, 6, ['E']⟩])]
def exR : List Tk := [⟨12, 8, []⟩]
def exCfg : Cfg := ⟨[⟨0, 7, [',']⟩, ⟨0, 2, [' ']⟩], [⟨0, 2, [' ']⟩], 6⟩
def exSt : St := ⟨exL ++ layout exPh exSegs ++ exR, spans exSegs, 100⟩
def exA : List Tk := [⟨20, 6, ['A']⟩]
def exB : List Tk := [⟨21, 6, ['B']⟩]
def textOf (s : List Tk) : List Char := (s.map (·.text)).flatten
def outText : R St → List Char
  | .ok st => textOf st.store
  | .error _ => ['!']

/-- The hypotheses of the repeated-slot theorems are satisfiable. -/
example : RegionWF exCfg exSt.store exSt.items exL exR exPh exSegs :=
  ⟨rfl, by unfold Distinct; decide, rfl, by unfold ItemsNonempty; decide, rfl⟩

example : textOf exSt.store = ['d', ' ', 'o', ' ', 'a', ' ', 'U', ',', ' ', 'E'] := by decide

/-- `raw_currencies[0:0] = [A, B]` gives `A, B, USD, EUR` (the old tree printed `A, , BUSD, EUR`). -/
example : outText (setSlice exCfg exSt (some 0) (some 0) none [exA, exB])
    = ['d', ' ', 'o', ' ', 'a', ' ', 'A', ',', ' ', 'B', ',', ' ', 'U', ',', ' ', 'E'] := by decide

/-- `insert(1, A)`, `append(A)`, `del [0]`, `[:] = [A]`, `clear()`. -/
example : outText (insert exCfg exSt 1 exA)
    = ['d', ' ', 'o', ' ', 'a', ' ', 'U', ',', ' ', 'A', ',', ' ', 'E'] := by decide
example : outText (append exCfg exSt exA)
    = ['d', ' ', 'o', ' ', 'a', ' ', 'U', ',', ' ', 'E', ',', ' ', 'A'] := by decide
example : outText (delItemInt exCfg exSt 0) = ['d', ' ', 'o', ' ', 'a', ' ', 'E'] := by decide
example : outText (setSlice exCfg exSt none none none [exA]) = ['d', ' ', 'o', ' ', 'a', ' ', 'A'] := by decide
example : outText (clear exCfg exSt) = ['d', ' ', 'o', ' ', 'a'] := by decide

/-- Extended slice `[::2] = [A]`, `del [::2]`, and a history (`insert(0, A)`, `pop()`, `[:] = [B]`). -/
example : outText (setSlice exCfg exSt none none (some 2) [exA]) = ['d', ' ', 'o', ' ', 'a', ' ', 'A', ',', ' ', 'E'] := by
  decide
example : outText (delSlice exCfg exSt none none (some 2)) = ['d', ' ', 'o', ' ', 'a', ' ', 'E'] := by decide
example : outText (applyOps exCfg exSt [.insert 0 exA, .pop (-1), .setSlice none none none [exB]])
    = ['d', ' ', 'o', ' ', 'a', ' ', 'B'] := by decide
/-- The invariant of the `_fold` theorems and the argument conditions are satisfiable. -/
example : Inv exCfg exL exR exPh exSt :=
  ⟨exSegs, ⟨rfl, by unfold Distinct; decide, rfl, by unfold ItemsNonempty; decide, rfl⟩, by unfold CtrOK; decide⟩
example : OpOK exSt (.insert 0 exA) :=
  ⟨trivial, ⟨⟨by unfold Distinct; decide, by decide⟩, by decide, by decide⟩⟩
example : RunsBelow 5 (runsDesc (sortDesc [0, 2, 3])) := by
  simp [sortDesc, insertDesc, runsDesc, RunsBelow]

/-- Slots: create the booking string after the currencies (pivot = last currency token, id 11), then remove it. -/
example : (createLeft exSt.store 11 [⟨100, 2, [' ']⟩] [⟨30, 9, ['"', 'S', '"']⟩]).map textOf
    = .ok ['d', ' ', 'o', ' ', 'a', ' ', 'U', ',', ' ', 'E', ' ', '"', 'S', '"'] := rfl
example : ((createLeft exSt.store 11 [⟨100, 2, [' ']⟩] [⟨30, 9, ['"', 'S', '"']⟩]).bind
    fun s => removeLeft s 11 30) = .ok exSt.store := rfl
end Example

end Autobean.C03
