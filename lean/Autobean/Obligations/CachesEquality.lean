/-
Obligation over the regenerated table `Generated/Caches.lean` (C20).
The models treat every public property as a function of the current content; the only remembered values they carry are
the cached VIEWS of repeated fields (`Model/Views.lean`, kept in step by update handlers).  `extract/extract.py` lists
every caching decorator, every descriptor class derived from / call of a caching descriptor and every attribute named
cache / memo; this module pins the part of that inventory that lies in: equality, hashing and the token base classes.
-/
import Autobean.Generated.Caches

namespace Autobean.Obligations.CachesEquality
open Autobean

def files : List String := ["models/base.py", "models/internal/base_token_models.py", "models/internal/repeated.py", "token_store.py", "models/block_comment.py"]

theorem caches_equality_none : (Generated.cachedDefs.filter fun d => files.any (fun f => d.1 == f || (f.endsWith "/" && d.1.startsWith f))) = [] := by decide +kernel

end Autobean.Obligations.CachesEquality
