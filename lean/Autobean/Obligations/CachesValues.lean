/-
Obligation over the regenerated table `Generated/Caches.lean` (C09).
The models treat every public property as a function of the current content; the only remembered values they carry are
the cached VIEWS of repeated fields (`Model/Views.lean`, kept in step by update handlers).  `extract/extract.py` lists
every caching decorator, every descriptor class derived from / call of a caching descriptor and every attribute named
cache / memo; this module pins the part of that inventory that lies in: the value-property code (cost, transaction strings, meta values, generated models).
-/
import Autobean.Generated.Caches

namespace Autobean.Obligations.CachesValues
open Autobean

def files : List String := ["models/cost_spec.py", "models/cost.py", "models/transaction.py", "models/meta_value_internal.py", "models/meta_value.py", "models/generated/"]

theorem caches_values_none : (Generated.cachedDefs.filter fun d => files.any (fun f => d.1 == f || (f.endsWith "/" && d.1.startsWith f))) = [] := by decide +kernel

end Autobean.Obligations.CachesValues
