/-
Obligations over the regenerated table `Generated/Refusals.lean` (C19).

`extract/extract.py` walks every function of the package that contains a `raise` statement and computes, by a
branch- and loop-aware may-analysis, the raises that some control-flow path reaches *after* a mutation of the token
store (`splice`, `insert_after`, `insert_before`, `remove`, `replace`, `update`, `_update_raw_text`), of a repeated
field's item list (`….items[…] = …`, `del ….items[…]`) or after a call of a function that (transitively, by name)
does one of these.  The model (`Model/Refuse.lean`) puts every check in front of every effect; this obligation is
the tie: on the current source no explicit refusal comes after an effect.
-/
import Autobean.Generated.Refusals

namespace Autobean.Obligations.Refusals
open Autobean

/-- Whatever a function refuses with an explicit `raise`, it refuses before it has changed the store or an item list. -/
theorem refusals_precede_mutation : Generated.lateRaises = [] := by decide

/-- The table is about something: the translator found the package's raising functions and its mutating helpers. -/
theorem refusals_table_nonvacuous :
    30 ≤ Generated.raisingFunctions ∧ "_shift_ignored" ∈ Generated.mutatingHelpers ∧
      "detach" ∈ Generated.mutatingHelpers ∧ "_insert_tokens" ∈ Generated.mutatingHelpers := by decide

end Autobean.Obligations.Refusals
