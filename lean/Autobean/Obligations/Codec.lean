import Autobean.Generated.Consts
import Autobean.Generated.Errors
/-!
Obligations pinning the lexical definitions the codec / lexer / number-expression models were written for (C12, C13,
C01): the escape map and patterns of `EscapedString` and the terminal definitions of `beancount.lark` (source text,
whitespace-normalised, prefixed by the priority).  A change to any of them makes the corresponding hand model
stale: the obligation fails and the check reports it.
-/
namespace Autobean.Obligations

/-- `EscapedString.__ESCAPE_MAP` as modelled by `Codec.escape` / `Codec.unescape`. -/
theorem escape_map : Generated.escapeMap = [("\n", "n"), ("\t", "t"), ("\r", "r"), ("\x0c", "f"), ("\x08", "b"), ("\"", "\""), ("\\", "\\")] := by decide

/-- The (non-aggressive) escape pattern and the unescape pattern. -/
theorem escape_patterns : Generated.escapePatterns = [("ESCAPE_PATTERN", "[\\\\\"]"), ("UNESCAPE_PATTERN", "\\\\(.)")] := by decide

/-- Terminal definitions the hand models of the lexer follow. -/
def pinnedTerminals : List (String × String) :=
  [("ESCAPED_STRING", "|/\".*?(?<!\\\\)(\\\\\\\\)*?\"/s"),
   ("INLINE_COMMENT", "|/;[^\\r\\n]*/s"),
   ("BLOCK_COMMENT", "|/^/m INLINE_COMMENT (_NEWLINE INLINE_COMMENT)* | /^/m WHITESPACE INLINE_COMMENT (_NEWLINE WHITESPACE INLINE_COMMENT)*"),
   ("_NEWLINE", "|/\\r*\\n/"),
   ("WHITESPACE", "|/[ \\t]+/"),
   ("INDENT", "|/^/m WHITESPACE /(?=[^ \\t\\r\\n])/s"),
   ("_NEWLINE_INDENT_COMMENT", ".10|(_NEWLINE | /\\A/) (BLOCK_COMMENT | INDENT) | _NEWLINE"),
   ("TAG", "|/#[A-Za-z0-9-_\\/.]+/"),
   ("LINK", "|/\\^[A-Za-z0-9-_\\/.]+/"),
   ("META_KEY", "|/[a-z][a-zA-Z0-9-_]+:/"),
   ("BOOL", ".10|\"TRUE\" | \"FALSE\""),
   ("NULL", ".10|\"NULL\""),
   ("DATE", ".10|/[0-9]{4,}[-\\/][0-9]{1,2}[-\\/][0-9]{1,2}/"),
   ("NUMBER", "|(/([0-9]{1,3})(,[0-9]{3})+/ | /[0-9]+/) [/\\.[0-9]*/]"),
   ("POSTING_FLAG", "|/[*!&#?%PSTCURM]/"),
   ("TRANSACTION_FLAG", "|POSTING_FLAG | \"txn\""),
   ("_NON_ASCII", "|/[^\\x00-\\x7f]/"),
   ("_ACCOUNT_TYPE", "|(/[A-Z]/ | _NON_ASCII) (/[A-Za-z0-9\\-]/ | _NON_ASCII)*"),
   ("_ACCOUNT_NAME", "|(/[A-Z0-9]/ | _NON_ASCII) (/[A-Za-z0-9\\-]/ | _NON_ASCII)*"),
   ("ACCOUNT", "|_ACCOUNT_TYPE (\":\" _ACCOUNT_NAME)+"),
   ("_CURRENCY_BODY", "|/[A-Z0-9'._-]*/"),
   ("CURRENCY", "|/[A-Z]/ _CURRENCY_BODY /[A-Z0-9]/"),
   ("IGNORED", "|/^/m (/[*:#]/ | POSTING_FLAG) /.*/"),
   ("UNARY_OP", "|\"+\" | \"-\""),
   ("ADD_OP", "|\"+\" | \"-\""),
   ("MUL_OP", "|\"*\" | \"/\""),
   ("LEFT_PAREN", "|\"(\""),
   ("RIGHT_PAREN", "|\")\"")]

theorem terminals_pinned : pinnedTerminals.all (fun p => Generated.terminals.lookup p.1 == some p.2) = true := by decide +kernel

end Autobean.Obligations
