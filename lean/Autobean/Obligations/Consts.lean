import Autobean.Generated.Consts
import Autobean.Generated.Errors
/-!
Obligations over the constants regenerated from /repo (tie #1).  Each is discharged by kernel evaluation of a
decidable statement about the *current* source; a change of the source that invalidates one makes this module
fail to build, which the checks report as a broken proof obligation.
-/
namespace Autobean.Obligations

/-- The four load-factor constants of `token_store.py` satisfy the relations every C07/C08 theorem assumes
(`lf ≥ 2`, `double = 2·lf`, `half = lf / 2`, `one_half = lf + half`). -/
theorem loadFactor_wf : Generated.loadFactor.WF := by decide

/-- The translator could read every construct it looked for. -/
theorem extract_complete : Generated.extractErrors = [] := by decide

end Autobean.Obligations
