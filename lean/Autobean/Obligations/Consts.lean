import Autobean.Model.Store
namespace Autobean.Obligations
theorem consts_placeholder : True := trivial
end Autobean.Obligations
