import Autobean.Generated.Consts
import Autobean.Generated.Errors
import Autobean.Model.Lex
/-!
Obligations tying the hand-written lexer/builder model (`Model/Lex.lean`) to the constants of the current
`parser.py` / `beancount.lark` (C01).
-/
namespace Autobean.Obligations

/-- `split3` was written for exactly this regular expression (with `re.S`, used through `fullmatch`). -/
theorem postlex_split_regex :
    Generated.postlexSplitRe = "([\\r\\n]*)([ \\t]*)(;.*)?" ∧ Generated.postlexSplitFlags = "re.S" := by decide

/-- The token type names `postLex` emits are the ones `PostLex` declares. -/
theorem postlex_names :
    Generated.postlexNames =
      [("_NEWLINE_INDENT_COMMENT", Lex.NIC), ("_NEWLINE", "_NEWLINE"), ("_EOL", Lex.tEOL.type),
       ("_INDENT_MARK", Lex.tINDENTMARK.type), ("_DEDENT_MARK", Lex.tDEDENT.type), ("_INDENT", "INDENT"),
       ("_BLOCK_COMMENT", "BLOCK_COMMENT")] := by decide

/-- The `%ignore` list of the grammar (cleared at import time and used as `_IGNORED_TOKENS`) is the one the
builder model skips over. -/
theorem ignored_terminals : Generated.ignoredTerminals = Lex.ignoredTypes := by decide

/-- The rule names `_build_tree` dispatches on. -/
theorem build_tree_dispatch :
    Generated.buildTreeLiterals = ["repeated", "repeated_sep", "indent", "indent2", "_"] := by decide

end Autobean.Obligations
