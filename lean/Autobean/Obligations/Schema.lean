import Autobean.Generated.Schema
import Autobean.Generated.Errors
/-!
Obligations over the schema of the generated model classes (C03, C05, C06, C11, C14, C15, C20).
-/
namespace Autobean.Obligations
open Autobean.Schema

/-- Pivot chains are the canonical ones (C03/C06: the insertion point of an optional child). -/
theorem pivots_canonical : Generated.allClasses.all pivotsCanonical = true := by decide +kernel

/-- `first_token` / `last_token` are the canonical chains and always yield a token (C05). -/
theorem first_last_canonical : Generated.allClasses.all firstLastCanonical = true := by decide +kernel

/-- Pivot properties are recomputed on every use, never cached (C03/C06). -/
theorem pivots_not_cached : Generated.allClasses.all pivotsNotCached = true := by decide +kernel

theorem pivots_total : Generated.allClasses.all pivotsTotal = true := by decide +kernel

/-- `clone` passes every field and `indent_by` (C11). -/
theorem clone_complete : Generated.allClasses.all cloneComplete = true := by decide +kernel

/-- `_reattach` rebinds the store and every field (C05). -/
theorem reattach_complete : Generated.allClasses.all reattachComplete = true := by decide +kernel

/-- `_eq` compares every field and `indent_by`, against the class itself (C20). -/
theorem eq_complete : Generated.allClasses.all eqComplete = true := by decide +kernel

/-- `auto_claim_comments`: self leading, self trailing, fields last-to-first (C14). -/
theorem auto_claim_canonical : Generated.allClasses.all autoClaimCanonical = true := by decide +kernel

/-- Non-empty separators for every optional / repeated field except zero-width marks (C06). -/
theorem separators_non_empty : Generated.allClasses.all separatorsNonEmpty = true := by decide +kernel

/-- `from_children` emits every field once in declaration order and re-attaches every field (C15). -/
theorem from_children_canonical : Generated.allClasses.all fromChildrenCanonical = true := by decide +kernel

theorem schema_nonvacuous : 30 ≤ Generated.allClasses.length := by decide

end Autobean.Obligations
