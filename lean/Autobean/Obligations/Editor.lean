import Autobean.Generated.Consts
import Autobean.Generated.Errors
/-!
Obligations tying the editor model's parameters to the current `editor.py` (C16).
-/
namespace Autobean.Obligations

/-- Every `open()` of `editor.py` passes `newline=''`: the model may be instantiated with identity decoding
(`translate = false`), the case `C16.identity_decoding_roundtrip` is about (with text-mode translation the
statement is false: `C16.crlf_witness`). -/
theorem editor_identity_decoding :
    Generated.editorOpens ≠ [] ∧ Generated.editorOpens.all (fun o => o.2.2 == "''") = true := by decide

/-- `os.makedirs` is guarded (a bare relative path has an empty dirname). -/
theorem editor_makedirs_guarded : Generated.editorMakedirsGuarded = true := by decide

end Autobean.Obligations
