import Autobean.Generated.Consts
import Autobean.Generated.Errors
/-!
Obligation tying the spacing model (`Model/Spacing.lean`: `textToTokens` / `spacingLang`) to the regular
expression of the current `spacing_accessors.py` (C17).
-/
namespace Autobean.Obligations

/-- `textToTokens` was written for exactly this `findall` pattern: group 1 = blanks, group 2 = `\r*\n`. -/
theorem spacing_regex : Generated.spacingRe = "([ \\t]+)|(\\r*\\n)" := by decide

end Autobean.Obligations
