/-
Obligation over the regenerated table `Generated/Caches.lean` (C10).
The models treat every public property as a function of the current content; the only remembered values they carry are
the cached VIEWS of repeated fields (`Model/Views.lean`, kept in step by update handlers).  `extract/extract.py` lists
every caching decorator, every descriptor class derived from / call of a caching descriptor and every attribute named
cache / memo; this module pins the part of that inventory that lies in: the repeated-field wrappers and their views.
-/
import Autobean.Generated.Caches

namespace Autobean.Obligations.CachesViews
open Autobean

def files : List String := ["models/internal/properties.py", "models/internal/value_properties.py", "models/meta_item_internal.py", "models/internal/interleaving_comments.py", "models/custom.py"]

theorem caches_views_pinned : (Generated.cachedDefs.filter fun d => files.any (fun f => d.1 == f || (f.endsWith "/" && d.1.startsWith f))) = [("models/custom.py", "Custom.values", "decorator:cached_custom_property"), ("models/internal/properties.py", "RepeatedNodeWrapper._separators", "decorator:cached_property"), ("models/internal/properties.py", "RepeatedNodeWrapper._separators_before", "decorator:cached_property"), ("models/internal/value_properties.py", "repeated_filtered_node_property", "base:cached_custom_property"), ("models/internal/value_properties.py", "repeated_string_property", "base:cached_custom_property"), ("models/meta_item_internal.py", "repeated_meta_item_property", "base:cached_custom_property"), ("models/meta_item_internal.py", "repeated_raw_meta_item_property", "base:cached_custom_property")] := by decide +kernel

/-- Whole-field assignment (`model.raw_x = wrapper`): every descriptor that replaces a repeated field and the wrapper it
remembers also forgets the model's cached views (they are bound to the replaced list) - the assumption under which the
history op `assign` of the C10 correspondence re-initialises the model world (`V init`). -/
theorem field_assignment_drops_views :
    Generated.wrapperSetters.all (fun d => d.2.2 == "drops") = true ∧ 2 ≤ Generated.wrapperSetters.length := by decide +kernel

end Autobean.Obligations.CachesViews
