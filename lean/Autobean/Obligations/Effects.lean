import Autobean.Generated.Effects
import Autobean.Generated.Errors
/-!
Obligations over the write/call table of the package (C02, C04, C08).
-/
namespace Autobean.Obligations

/-- A token's text is written only by `Token.__init__` and `Token._update_raw_text`: every setter of every
token class goes through the store notification (C02, C08). -/
theorem rawText_single_writer :
    Generated.rawTextWriters = ["token_store.Token.__init__", "token_store.Token._update_raw_text"] := by decide

/-- Cached sizes (`token.size`, `block.size`) are written only inside `token_store.py`. -/
theorem size_writers_in_store : Generated.sizeWriters.all (fun n => n.startsWith "token_store.") = true := by decide +kernel

/-- No read-only role (property / custom_property getter, `__eq__`, `__hash__`, `__iter__`, `__len__`,
`__getitem__`, `__contains__`, `tokens`, `print_model`, `__deepcopy__`, `clone`, …) reaches a store mutator
through plain function calls or self-method calls (C04).  The claim functions are ordinary methods and are
covered by the `claim_*` theorems instead. -/
theorem getters_do_not_touch_store : Generated.gettersTouching = [] := by decide

/-- The table is not vacuous. -/
theorem effects_nonvacuous : 300 ≤ Generated.nDefs ∧ 100 ≤ Generated.nGetters := by decide

end Autobean.Obligations
