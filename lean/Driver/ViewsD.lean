import Autobean.Model.Views
import Driver.Util
/-
Driver for the views model (C10), history mode.  The world is one raw item list plus its registered views.

  V init <items>                      items = id:ty:val,... | -
  V reg <tys> <upd>                   tys = type tags the view accepts; upd = n | a | s<tys>
  V raw <op> <args…>                  setint i item | setslice a b c items | delint i | delslice a b c | insert i item
                                      | append item | extend items | clear | pop i | dropmany nats | reassign items
  V view <k> <op> <args…>             setint | setslice | delint | delslice | insert | append | extend | clear | pop
                                      | remove val | discard val | setkeyraw key item | setkeyval key item
                                      | delkey key | popkey key 0/1
  V read <k> int i | slice a b c | key k | has k | iter
Integers: decimal with optional '-', `N` = None.
Output: `ok|err:<tag> items=<id:val,…> views=<rawIdx>|<rawIdx>… ref=<id:val,…|!tag|?>`.
-/
open Autobean.Views
namespace Driver

structure ViewsWorld where
  w : World := {}

def decOptInt (s : String) : Option Int := if s = "N" then none else some (decInt s)

def decItem (s : String) : Item :=
  match s.splitOn ":" with
  | [a, b, c] => { id := a.toNat!, ty := b.toNat!, val := c.toNat! }
  | [a, b] => { id := a.toNat!, ty := b.toNat!, val := 0 }
  | _ => { id := 0, ty := 0, val := 0 }

def decItems (s : String) : List Item := if s = "-" then [] else (s.splitOn ",").map decItem

def encItems (xs : List Item) : String :=
  if xs.isEmpty then "-" else ",".intercalate (xs.map fun x => s!"{x.id}:{x.val}")

def decUpd (s : String) : UpdKind :=
  if s = "n" then .never else if s = "a" then .always else .sameTyIn (decNats (s.drop 1).toString)

def dumpWorld (w : World) : String :=
  s!"items={encItems w.items} views=" ++ "|".intercalate (w.views.map fun v => encNats v.rawIdx)

def encRef : Option (Except String (List Item)) → String
  | none => "?"
  | some (.ok xs) => encItems xs
  | some (.error e) => "!" ++ e

def parseRaw : List String → Option RawOp
  | ["setint", i, v] => some (.setInt (decInt i) (decItem v))
  | ["setslice", a, b, c, vs] => some (.setSlice (decOptInt a) (decOptInt b) (decOptInt c) (decItems vs))
  | ["delint", i] => some (.delInt (decInt i))
  | ["delslice", a, b, c] => some (.delSlice (decOptInt a) (decOptInt b) (decOptInt c))
  | ["insert", i, v] => some (.insert (decInt i) (decItem v))
  | ["append", v] => some (.append (decItem v))
  | ["extend", vs] => some (.extend (decItems vs))
  | ["clear"] => some .clear
  | ["pop", i] => some (.pop (decInt i))
  | ["dropmany", ns] => some (.dropMany (decNats ns))
  | ["reassign", vs] => some (.reassign (decItems vs))
  | _ => none

def parseView : List String → Option ViewOp
  | ["setint", i, v] => some (.setInt (decInt i) (decItem v))
  | ["setslice", a, b, c, vs] => some (.setSlice (decOptInt a) (decOptInt b) (decOptInt c) (decItems vs))
  | ["delint", i] => some (.delInt (decInt i))
  | ["delslice", a, b, c] => some (.delSlice (decOptInt a) (decOptInt b) (decOptInt c))
  | ["insert", i, v] => some (.insert (decInt i) (decItem v))
  | ["append", v] => some (.append (decItem v))
  | ["extend", vs] => some (.extend (decItems vs))
  | ["clear"] => some .clear
  | ["pop", i] => some (.pop (decInt i))
  | ["remove", v] => some (.remove v.toNat!)
  | ["discard", v] => some (.discard v.toNat!)
  | ["setkeyraw", k, v] => some (.setKeyRaw k.toNat! (decItem v))
  | ["setkeyval", k, v] => some (.setKeyVal k.toNat! (decItem v))
  | ["delkey", k] => some (.delKey k.toNat!)
  | ["popkey", k, d] => some (.popKey k.toNat! (d = "1"))
  | _ => none

def outcome (r : World × Option String) (ref : String) : ViewsWorld × String :=
  let tag := match r.2 with
    | none => "ok"
    | some e => "err:" ++ e
  ({ w := r.1 }, s!"{tag} {dumpWorld r.1} ref={ref}")

def rstrItems : Except String (List Item) → String
  | .ok xs => "ok " ++ encItems xs
  | .error e => "err:" ++ e

def viewsStep (vw : ViewsWorld) (args : List String) : ViewsWorld × String :=
  let w := vw.w
  match args with
  | ["init", items] =>
    let w' : World := { items := decItems items, views := [] }
    ({ w := w' }, "ok " ++ dumpWorld w' ++ " ref=?")
  | ["reg", tys, upd] =>
    let ts := decNats tys
    outcome (w.step (.register (fun t => ts.contains t) (decUpd upd))) "?"
  | "raw" :: rest =>
    match parseRaw rest with
    | none => (vw, "!bad-op")
    | some op => outcome (w.step (.raw op)) (encRef (op.pyRef w.items))
  | "view" :: k :: rest =>
    match parseView rest, w.views[k.toNat!]? with
    | some op, some v => outcome (w.step (.view k.toNat! op)) (encRef (op.pyRef (filterItems v.pred w.items)))
    | _, _ => (vw, "!bad-op")
  | ["read", k, "int", i] =>
    match w.views[k.toNat!]? with
    | some v => (vw, rstrItems ((v.getInt w.items (decInt i)).map fun x => [x]))
    | none => (vw, "!bad-op")
  | ["read", k, "slice", a, b, c] =>
    match w.views[k.toNat!]? with
    | some v => (vw, rstrItems (v.getSlice w.items (decOptInt a) (decOptInt b) (decOptInt c)))
    | none => (vw, "!bad-op")
  | ["read", k, "key", key] =>
    match w.views[k.toNat!]? with
    | some v => (vw, rstrItems ((v.getKey w.items key.toNat!).map fun x => [x]))
    | none => (vw, "!bad-op")
  | ["read", k, "has", key] =>
    match w.views[k.toNat!]? with
    | some v => (vw, if v.containsKey w.items key.toNat! then "ok 1" else "ok 0")
    | none => (vw, "!bad-op")
  | ["read", k, "iter"] =>
    match w.views[k.toNat!]? with
    | some v => (vw, rstrItems (.ok (v.iter w.items)))
    | none => (vw, "!bad-op")
  | _ => (vw, "!bad-op")

end Driver
