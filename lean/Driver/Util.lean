/-
Line-protocol helpers shared by all driver modules.
Texts travel as '.'-separated decimal code points ("e" for the empty text);
lists of naturals as ','-separated ("-" for empty / none).
-/
namespace Driver

def splitWords (s : String) : List String :=
  (s.splitOn " ").filter (· ≠ "")

def decText (s : String) : List Char :=
  if s = "e" then [] else (s.splitOn ".").map fun w => Char.ofNat w.toNat!

def encText (cs : List Char) : String :=
  if cs.isEmpty then "e" else ".".intercalate (cs.map fun c => toString c.toNat)

def decNats (s : String) : List Nat :=
  if s = "-" then [] else (s.splitOn ",").map (·.toNat!)

def encNats (ns : List Nat) : String :=
  if ns.isEmpty then "-" else ",".intercalate (ns.map toString)

def decOptNat (s : String) : Option Nat := if s = "-" then none else some s.toNat!

def encOptNat : Option Nat → String
  | none => "-"
  | some n => toString n

def encInt (i : Int) : String := toString i

def decInt (s : String) : Int :=
  if s.startsWith "-" then - ((s.drop 1).toString.toNat! : Int) else (s.toNat! : Int)

end Driver
