import Autobean.Model.NumExpr
import Driver.Util
/-
Driver for the number-expression model (C13).  Stateless: every line is self-contained.

  N <tokens> <step>*

<tokens>  ','-separated tokens `k:text`, k ∈ n(NUMBER) a(ADD_OP) m(MUL_OP) u(UNARY_OP) l(LEFT_PAREN) r(RIGHT_PAREN)
          w(any ignored token), text as '.'-separated code points.
<step>    `<op>/<operand>`; op ∈ add sub mul div (cur ∘ x, plain or in-place), radd rsub rmul rdiv (x ∘ cur),
          neg pos wrap (operand `-`), self-add … `sadd ssub smul sdiv` (cur ∘ cur, operand `-`);
          operand `E=<tokens>` (an expression) or `V=<0|1>=<text>` (`from_value`: sign flag, text of abs).

Output: one stage for the parsed input and one per step, joined by " || "; a stage is
  <tokens> ;; <s-expression> ;; <fully parenthesised value term>
Failures: `!parse`, `!operand`, `!step`.
-/
open Autobean.NumExpr
namespace Driver

structure NumWorld where
  lines : Nat := 0

def decSign (t : List Char) : Option Sign :=
  if t = ['+'] then some .plus else if t = ['-'] then some .minus else none

def decMulOp (t : List Char) : Option MulOp :=
  if t = ['*'] then some .times else if t = ['/'] then some .over else none

def decTok (s : String) : Option Token :=
  match s.splitOn ":" with
  | [k, t] =>
    let txt := decText t
    if k = "n" then some (.number txt)
    else if k = "a" then (decSign txt).map .addOp
    else if k = "u" then (decSign txt).map .unaryOp
    else if k = "m" then (decMulOp txt).map .mulOp
    else if k = "l" then some .lparen
    else if k = "r" then some .rparen
    else if k = "w" then some (.ws txt)
    else none
  | _ => none

def decToks (s : String) : Option (List Token) := (s.splitOn ",").mapM decTok

def encTok (t : Token) : String :=
  let k := match t with
    | .number _ => "n" | .addOp _ => "a" | .mulOp _ => "m" | .unaryOp _ => "u"
    | .lparen => "l" | .rparen => "r" | .ws _ => "w"
  k ++ ":" ++ encText t.text

def encToks (l : List Token) : String := ",".intercalate (l.map encTok)

def parseWhole (s : String) : Option Add :=
  match decToks s with
  | none => none
  | some toks =>
    match parseAdd toks with
    | some (e, []) => some e
    | _ => none

def decOperand (s : String) : Option Add :=
  match s.splitOn "=" with
  | ["E", t] => parseWhole t
  | ["V", sg, t] => some (fromValue (sg = "1") (decText t))
  | _ => none

def decBin (s : String) : Option BinOp :=
  if s = "add" then some .add else if s = "sub" then some .sub
  else if s = "mul" then some .mul else if s = "div" then some .div else none

def decStep (cur : Add) (s : String) : Except String Step :=
  match s.splitOn "/" with
  | [op, arg] =>
    if op = "neg" then .ok .neg
    else if op = "pos" then .ok .pos
    else if op = "wrap" then .ok .wrap
    else if op.startsWith "s" && (decBin (op.drop 1).toString).isSome then
      match decBin (op.drop 1).toString with
      | some o => .ok (.bin o cur)
      | none => .error "!step"
    else
      let (refl, name) := if op.startsWith "r" then (true, (op.drop 1).toString) else (false, op)
      match decBin name, decOperand arg with
      | some o, some x => .ok (if refl then .rbin o x else .bin o x)
      | none, _ => .error "!step"
      | _, none => .error "!operand"
  | _ => .error "!step"

def stage (e : Add) : String :=
  encToks (tokensOf e) ++ " ;; " ++ e.sexp ++ " ;; " ++ eval termArith e

def runSteps : Add → List String → List String → String
  | _, acc, [] => " || ".intercalate acc.reverse
  | cur, acc, s :: ss =>
    match decStep cur s with
    | .error e => " || ".intercalate (e :: acc).reverse
    | .ok st => let nxt := applyStep cur st; runSteps nxt (stage nxt :: acc) ss

def numStep (w : NumWorld) (args : List String) : NumWorld × String :=
  let w' := { w with lines := w.lines + 1 }
  match args with
  | [] => (w', "!bad-op")
  | t :: steps =>
    match parseWhole t with
    | none => (w', "!parse")
    | some e => (w', runSteps e [stage e] steps)

end Driver
