import Autobean.Model.Lex
import Driver.Util
/-
Driver for the lexer/post-lexer/builder/printer model (C01).  Stateless: every line is self-contained.

Protocol (words separated by blanks; texts are '.'-separated code points, `e` = empty; see Driver/Util.lean)

  L consts
      -> `ok nic=<NIC> ignored=<T,T,…>`                      the constants the model hard-codes

  L split3 <text>
      -> `ok <nl> <indent> <comment>` | `none`               `_NEWLINE_INDENT_COMMENT_SPLIT_RE.fullmatch`

  L postlex <TYPE:text> …
      -> `ok <TYPE:text> …` | `err <tag>`                    `PostLex.process` on the raw lexer tokens

  L build <TYPE:text> … | <tree>
      tokens = the list fed to `ModelBuilder` (after PostLex);
      <tree> = s-expression in words:  `<n>` token leaf (index into the fed list) | `-` None child |
               `( <rule> <child> … )` lark.Tree
      -> `ok a2=<0|1> a3=<0|1> | <KIND:text> … | <mtree> | <text> …`
           a2     = `LeavesIncreasing` (lark assumption A2, exact form incl. `_build_indent`)
           a3     = `txnSlotsOk` (the `[NEVER]` slot of every transaction is empty)
           store  = kind and raw text of every store token, in store order (ids = positions)
           mtree  = `<id>` token | `-` None field | `[ <placeholder id> <item> … ]` Repeated |
                    `( <rule> <field> … )` tree model (after `from_parsed_children`)
           texts  = `printModel` of every sub-model in DFS pre-order (`MTree.subs`; the root first)
       | `err <tag>`                                         the builder raised
-/
open Autobean.Lex
namespace Driver

structure LexWorld where
  unit : Unit := ()

def decLTok (w : String) : LTok :=
  match w.splitOn ":" with
  | [ty, tx] => ⟨ty, decText tx⟩
  | _ => ⟨"?bad", []⟩

def encLTok (t : LTok) : String := t.type ++ ":" ++ encText t.value
def encSTok (t : STok) : String := t.kind ++ ":" ++ encText t.text

/-- Parse one tree from the word list; returns the rest. -/
partial def parsePTree : List String → Option (PTree × List String)
  | [] => none
  | "-" :: r => some (.absent, r)
  | "(" :: rule :: r =>
    let rec kids (ws : List String) (acc : Array PTree) : Option (Array PTree × List String) :=
      match ws with
      | ")" :: r' => some (acc, r')
      | [] => none
      | _ => match parsePTree ws with
        | some (t, r') => kids r' (acc.push t)
        | none => none
    match kids r #[] with
    | some (cs, r') => some (.node rule cs.toList, r')
    | none => none
  | w :: r => if w.isNat then some (.leaf w.toNat!, r) else none

partial def encMTree : MTree → String
  | .tok i => toString i
  | .absent => "-"
  | .rep ph items => "[ " ++ " ".intercalate (toString ph :: items.map encMTree) ++ " ]"
  | .node r fs => "( " ++ " ".intercalate (r :: fs.map encMTree) ++ " )"

def splitAtBar (ws : List String) : List String × List String :=
  (ws.takeWhile (· ≠ "|"), (ws.dropWhile (· ≠ "|")).drop 1)

def b01 (b : Bool) : String := if b then "1" else "0"

def lexStep (w : LexWorld) (args : List String) : LexWorld × String :=
  match args with
  | ["consts"] => (w, s!"ok nic={NIC} ignored={",".intercalate ignoredTypes}")
  | ["split3", tx] =>
    match split3 (decText tx) with
    | some (a, b, c) => (w, s!"ok {encText a} {encText b} {encText c}")
    | none => (w, "none")
  | "postlex" :: toks =>
    match postLex (toks.map decLTok) with
    | .ok out => (w, " ".intercalate ("ok" :: out.map encLTok))
    | .error e => (w, "err " ++ e)
  | "build" :: rest =>
    let (tws, trs) := splitAtBar rest
    let toks := tws.map decLTok
    match parsePTree trs with
    | some (t, []) =>
      match build toks t with
      | .ok (store, m) =>
        let a2 := decide (LeavesIncreasing toks t)
        let a3 := txnSlotsOk toks t
        let prints := m.subs.map fun s => encText (printModel store s)
        (w, s!"ok a2={b01 a2} a3={b01 a3} | " ++ " ".intercalate (store.map encSTok) ++ " | " ++ encMTree m ++
          " | " ++ " ".intercalate prints)
      | .error e => (w, "err " ++ e)
    | _ => (w, "!bad-tree")
  | _ => (w, "!bad-op")

end Driver
