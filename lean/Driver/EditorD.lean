import Autobean.Model.Editor
import Driver.Util
/-
Driver for the editor model (C16).  One line = one whole scenario, no state is carried.

  E rec <translate 0|1> <raises 0|1> <root>
        F <n> (<path> <contents>){n}            -- the file system (contents as code points)
        I <n> (<path> <k> <match>{k}){n}        -- include relation: per spelling the normalised glob matches in directive order
        D <n> (<path> <realpath>){n}            -- identity of every spelling (paths not listed are their own identity)
        A <n> (edit <path> <printed> | del <path> | add <path> <printed>){n}   -- what the body does to the mapping
  E one <translate 0|1> <raises 0|1> <path>
        F <n> (<path> <contents>){n}
        P <printed | ->                          -- printed model after the body (`-` = model untouched)

Output: `visit=<p>|… fs=<p>:<c>|… log=<w|u|m>:<p>|… raised=<tag|-> read=<len>.<#CR>|…`
(fs sorted by path, `-` for an empty list; `read` = length and number of carriage returns of every text read, in visit order).
All paths and texts are '.'-separated code points (`e` = empty).
-/
open Autobean Autobean.Editor
namespace Driver

structure EditorWorld where
  runs : Nat := 0

def pathLe : List Char → List Char → Bool
  | [], _ => true
  | _ :: _, [] => false
  | a :: as, b :: bs => if a.toNat < b.toNat then true else if b.toNat < a.toNat then false else pathLe as bs

def encList (xs : List String) : String := if xs.isEmpty then "-" else "|".intercalate xs

def encEvent : Event → String
  | .write p => "w:" ++ encText p
  | .unlink p => "u:" ++ encText p
  | .mkdir p => "m:" ++ encText p

def dumpRead (texts : List Text) : String :=
  encList (texts.map fun t => s!"{t.length}.{(t.filter (· == '\r')).length}")

def dumpOutcome (o : Outcome) : String :=
  let fs := o.fs.mergeSort (fun a b => pathLe a.1 b.1)
  "visit=" ++ encList (o.visit.map encText) ++
  " fs=" ++ encList (fs.map fun e => encText e.1 ++ ":" ++ encText e.2) ++
  " log=" ++ encList (o.log.map encEvent) ++
  " raised=" ++ (o.raised.getD "-")

/-- `n` pairs `(path, contents)`; returns the rest. -/
def parsePairs : Nat → List String → Option (List (Path × Bytes) × List String)
  | 0, rest => some ([], rest)
  | n + 1, p :: c :: rest => (parsePairs n rest).map fun (l, r) => ((decText p, decText c) :: l, r)
  | _, _ => none

def parseIncludes : Nat → List String → Option (List (Path × List Path) × List String)
  | 0, rest => some ([], rest)
  | n + 1, p :: k :: rest =>
    let kk := k.toNat!
    if rest.length < kk then none else
    let ms := (rest.take kk).map decText
    (parseIncludes n (rest.drop kk)).map fun (l, r) => ((decText p, ms) :: l, r)
  | _, _ => none

def parseActions : Nat → List String → Option (List Action × List String)
  | 0, rest => some ([], rest)
  | n + 1, "edit" :: p :: t :: rest => (parseActions n rest).map fun (l, r) => (Action.edit (decText p) (decText t) :: l, r)
  | n + 1, "del" :: p :: rest => (parseActions n rest).map fun (l, r) => (Action.del (decText p) :: l, r)
  | n + 1, "add" :: p :: t :: rest => (parseActions n rest).map fun (l, r) => (Action.add (decText p) (decText t) :: l, r)
  | _, _ => none

def runRec (tr raises root : String) (rest : List String) : Option String :=
  match rest with
  | "F" :: n :: rest =>
    match parsePairs n.toNat! rest with
    | some (fs, "I" :: m :: rest) =>
      match parseIncludes m.toNat! rest with
      | some (table, "D" :: d :: rest) =>
        match parsePairs d.toNat! rest with
        | some (idents, "A" :: k :: rest) =>
          match parseActions k.toNat! rest with
          | some (actions, []) =>
            let inc : Path → List Path := fun p => (table.lookup p).getD []
            let ident : Path → Path := fun p => (idents.lookup p).getD p
            let fuel := fuelBound inc (decText root :: table.map (·.1))
            let read := match enter (tr == "1") inc ident fuel (decText root) fs with
              | .ok texts => texts.map (·.2)
              | .error _ => []
            some (dumpOutcome (editFileRecursive (tr == "1") inc ident fuel (decText root) (bodyOf actions (raises == "1")) fs)
              ++ " read=" ++ dumpRead read)
          | _ => none
        | _ => none
      | _ => none
    | _ => none
  | _ => none

def runOne (tr raises path : String) (rest : List String) : Option String :=
  match rest with
  | "F" :: n :: rest =>
    match parsePairs n.toNat! rest with
    | some (fs, ["P", printed]) =>
      let body : Text → Option Text := fun t =>
        if raises == "1" then none else if printed == "-" then some t else some (decText printed)
      let read := match FS.read fs (decText path) with
        | some b => [decode (tr == "1") b]
        | none => []
      some (dumpOutcome (editFile (tr == "1") (decText path) body fs) ++ " read=" ++ dumpRead read)
    | _ => none
  | _ => none

def editorStep (w : EditorWorld) (args : List String) : EditorWorld × String :=
  let w' := { w with runs := w.runs + 1 }
  match args with
  | "rec" :: tr :: raises :: root :: rest => (w', (runRec tr raises root rest).getD "!bad-scenario")
  | "one" :: tr :: raises :: path :: rest => (w', (runOne tr raises path rest).getD "!bad-scenario")
  | _ => (w, "!bad-op")

end Driver
