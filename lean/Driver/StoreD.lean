import Autobean.Model.Store
import Driver.Util
/-
Driver for the blocked token store model (C07/C08/C02).

World: the load-factor constants, a list of stores, and a pool of free tokens (tokens created but
not inserted yet, or spliced out).  Token arguments: `+id:text` creates a fresh free token,
`id` refers to an existing one (in the pool, or still inside a store — for the "already in a
store" path).
-/
open Autobean
namespace Driver

structure StoreWorld where
  c : LF := LF.ofLoadFactor 1000
  stores : List Store := []
  pool : List Tok := []

def StoreWorld.getStore (w : StoreWorld) (sid : Nat) : Option Store := w.stores.find? (·.sid = sid)

def StoreWorld.putStore (w : StoreWorld) (s : Store) : StoreWorld :=
  if w.stores.any (·.sid = s.sid) then { w with stores := w.stores.map fun x => if x.sid = s.sid then s else x }
  else { w with stores := w.stores ++ [s] }

def StoreWorld.lookupTok (w : StoreWorld) (id : Nat) : Option Tok :=
  match w.pool.find? (·.id = id) with
  | some t => some t
  | none => w.stores.findSome? fun s => (findTok id 0 s.blocks).map (·.2.2)

def parseTokArg (w : StoreWorld) (a : String) : Option Tok :=
  if a.startsWith "+" then
    match ((a.drop 1).toString.splitOn ":") with
    | [i, t] => let txt := decText t; some { id := i.toNat!, text := txt, size := tokSize txt, h := none }
    | _ => none
  else w.lookupTok a.toNat!

def parseTokArgs (w : StoreWorld) (as : List String) : Option (List Tok) := as.mapM (parseTokArg w)

def dumpTok (bs : List Block) (t : Tok) : String :=
  let hs := match t.h with
    | none => "@-"
    | some hd => match bs.findIdx? (fun b : Block => b.ref = hd.ref) with
      | some p => s!"@{p}.{hd.j}"
      | none => "@?"
  s!"{t.id}{hs}/{t.size.line}.{t.size.col}"

def dumpBlock (bs : List Block) (b : Block) : String :=
  s!"[{b.idx}|{b.size.line}.{b.size.col}|{b.lni}|" ++ " ".intercalate (b.toks.map (dumpTok bs)) ++ "]"

def dumpStore (s : Store) : String :=
  s!"len={s.len} " ++ " ".intercalate (s.blocks.map (dumpBlock s.blocks))

def rstr {α} (f : α → String) : R α → String
  | .ok a => f a
  | .error e => "!" ++ e

def dumpQueries (s : Store) : String :=
  let per := s.toList.map fun t =>
    s!"{t.id}:" ++ rstr toString (s.getIndex t.id) ++ ":" ++
      rstr (fun p => s!"{p.line}.{p.col}") (s.getPosition t.id) ++ ":" ++
      rstr encOptNat (s.getPrev t.id) ++ ":" ++ rstr encOptNat (s.getNext t.id)
  s!"first={encOptNat s.getFirst} last=" ++ rstr encOptNat s.getLast ++ s!" len={s.len} iter={encNats s.ids} " ++
    " ".intercalate per

/-- After a splice: removed tokens leave the store and enter the pool; inserted ones leave the pool. -/
def applyOut (w : StoreWorld) (inserted : List Tok) (o : SpliceOut) : StoreWorld :=
  let pool := w.pool.filter fun t => !(inserted.any (·.id = t.id))
  -- inserted tokens that were created on the fly are not in the pool; nothing to do
  { (w.putStore o.store) with pool := pool ++ o.removed }

def withStore (w : StoreWorld) (sid : String) (k : Store → StoreWorld × String) : StoreWorld × String :=
  match w.getStore sid.toNat! with
  | none => (w, "!no-such-store")
  | some s => k s

def mutate (w : StoreWorld) (toks : List Tok) (r : R SpliceOut) : StoreWorld × String :=
  match r with
  | .ok o0 =>
    -- tokens of the replaced range that were re-inserted by the same call did not leave the store
    let o : SpliceOut := { o0 with removed := o0.removed.filter fun t => !(toks.any (·.id = t.id)) }
    (applyOut w toks o, "ok " ++ dumpStore o.store ++ " removed=" ++ " ".intercalate (o.removed.map (dumpTok [])))
  | .error e => (w, "err " ++ e)

def storeStep (w : StoreWorld) (args : List String) : StoreWorld × String :=
  match args with
  | ["lf", lf, dbl, half, onehalf] =>
    ({ c := ⟨lf.toNat!, dbl.toNat!, half.toNat!, onehalf.toNat!⟩ }, "ok")
  | "from" :: sid :: toks =>
    match parseTokArgs w toks with
    | none => (w, "!bad-token")
    | some ts =>
      match Store.fromTokens w.c sid.toNat! ts with
      | .ok s =>
        let pool := w.pool.filter fun t => !(ts.any (·.id = t.id))
        ({ (w.putStore s) with pool := pool }, "ok " ++ dumpStore s)
      | .error e => (w, "err " ++ e)
  | "splice" :: sid :: ref :: de :: toks =>
    withStore w sid fun s =>
      match parseTokArgs w toks with
      | none => (w, "!bad-token")
      | some ts => mutate w ts (s.splice w.c ts (decOptNat ref) (decOptNat de))
  | "insert_after" :: sid :: ref :: toks =>
    withStore w sid fun s =>
      match parseTokArgs w toks with
      | none => (w, "!bad-token")
      | some ts => mutate w ts (s.insertAfter w.c (decOptNat ref) ts)
  | "insert_before" :: sid :: ref :: toks =>
    withStore w sid fun s =>
      match parseTokArgs w toks with
      | none => (w, "!bad-token")
      | some ts => mutate w ts (s.insertBefore w.c (decOptNat ref) ts)
  | ["replace", sid, tok, repl] =>
    withStore w sid fun s =>
      match parseTokArg w repl with
      | none => (w, "!bad-token")
      | some t => mutate w [t] (s.replace w.c tok.toNat! t)
  | ["remove", sid, a, b] =>
    withStore w sid fun s => mutate w [] (s.remove w.c a.toNat! (decOptNat b))
  | ["update", sid, tok, txt] =>
    withStore w sid fun s =>
      match s.updateText tok.toNat! (decText txt) with
      | .ok s' => (w.putStore s', "ok " ++ dumpStore s')
      | .error e => (w, "err " ++ e)
  | ["updatefree", tok, txt] =>
    -- a token outside every store (in the pool) has its text changed
    match w.pool.find? (·.id = tok.toNat!) with
    | none => (w, "!not-free")
    | some t =>
      let t' := t.updateFree (decText txt)
      ({ w with pool := w.pool.map fun x => if x.id = t.id then t' else x }, "ok " ++ dumpTok [] t')
  | ["query", sid] => withStore w sid fun s => (w, "ok " ++ dumpQueries s)
  | ["iter", sid, a, b] =>
    withStore w sid fun s => (w, rstr (fun l => "ok " ++ encNats l) (s.iter a.toNat! b.toNat!))
  | _ => (w, "!bad-op")

end Driver
