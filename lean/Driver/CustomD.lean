import Autobean.Model.CustomVals
import Driver.Util
/-
Driver for `_disambiguate_values` (C06).  Stateless.

  D <kind><sign>,<kind><sign>,...     kind: n (NumberExpr) | a (Amount) | o (anything else); sign: 0 | 1;  `-` = no value
  → ok <w><w>... read=<k>             w = 1 when that value was put in parentheses; k = values the reader sees
  D raw <kind><sign>,...              the values as they are (no disambiguation)  → ok read=<k>
-/
open Autobean.CustomVals
namespace Driver

def parseCVal (s : String) : Option CVal :=
  match s.toList with
  | [k, g] =>
    let kind := match k with | 'n' => some Kind.num | 'a' => some Kind.amount | 'o' => some Kind.other | _ => none
    let sign := match g with | '0' => some false | '1' => some true | _ => none
    match kind, sign with
    | some k, some g => some ⟨k, g⟩
    | _, _ => none
  | _ => none

def customStep (args : List String) : String :=
  match args with
  | ["raw", a] =>
    let vs : Option (List CVal) := if a = "-" then some [] else (a.splitOn ",").mapM parseCVal
    match vs with
    | none => "!bad-args"
    | some vs => "ok read=" ++ toString (readCount vs)
  | [a] =>
    let vs : Option (List CVal) := if a = "-" then some [] else (a.splitOn ",").mapM parseCVal
    match vs with
    | none => "!bad-args"
    | some vs =>
      let r := disamb vs
      "ok " ++ String.ofList (r.map fun x => if x.2 then '1' else '0') ++ " read=" ++ toString (readCount (r.map (·.1)))
  | _ => "!bad-args"

end Driver
