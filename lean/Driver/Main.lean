import Driver.StoreD
import Driver.LexD
import Driver.ConstructD
import Driver.ViewsD
import Driver.NumExprD
import Driver.CostD
import Driver.SpacingD
import Driver.CodecD
import Driver.EditorD
import Driver.RepeatedD
import Driver.TreeD
import Driver.CommentsD
import Driver.CustomD
/-
One line in, one line out.  First word selects the model.
Run: `lake env lean --run Driver/Main.lean < ops.txt`
-/
open Driver

structure World where
  store : StoreWorld := {}
  lex : LexWorld := {}
  views : ViewsWorld := {}
  num : NumWorld := {}
  cost : CostWorld := {}
  editor : EditorWorld := {}

def step (w : World) (line : String) : World × String :=
  match splitWords line with
  | "S" :: rest => let (s, out) := storeStep w.store rest; ({ w with store := s }, out)
  | "L" :: rest => let (s, out) := lexStep w.lex rest; ({ w with lex := s }, out)
  | "C" :: rest => (w, constructStep rest)
  | "N" :: rest => let (s, out) := numStep w.num rest; ({ w with num := s }, out)
  | "Q" :: rest => let (s, out) := costStep w.cost rest; ({ w with cost := s }, out)
  | "W" :: rest => (w, spacingStep rest)
  | "K" :: rest => (w, codecStep rest)
  | "E" :: rest => let (e, out) := editorStep w.editor rest; ({ w with editor := e }, out)
  | "R" :: rest => (w, repStep rest)
  | "T" :: rest => (w, treeStep rest)
  | "M" :: rest => (w, commentsStep rest)
  | "D" :: rest => (w, customStep rest)
  | "V" :: rest => let (v, out) := viewsStep w.views rest; ({ w with views := v }, out)
  | ["reset"] => ({}, "ok")
  | _ => (w, "!bad-op")

partial def loop (h : IO.FS.Stream) (out : IO.FS.Stream) (w : World) : IO Unit := do
  let line ← h.getLine
  if line.isEmpty then return ()
  let (w', o) := step w (line.trimAsciiEnd.toString)
  out.putStrLn o
  loop h out w'

def main : IO Unit := do
  loop (← IO.getStdin) (← IO.getStdout) {}
