import Autobean.Model.Spacing
import Autobean.Model.Indent
import Driver.Util
/-
Driver for the spacing-accessor model (C17) and the indent rule (C18).  Stateless, lock-step: every line
carries its own pre-state.

  W get <store> <first> <last> <side>            -> ids of the returned tokens ("-" = none)
  W set <store> <first> <last> <side> <text>     -> the new store: old ids, new tokens as N:<kind>:<text>
  W totok <text>                                 -> <kind>:<text>,...   (`_text_to_tokens`)
  W lang <text>                                  -> 1 | 0               (`([ \t]+|\r*\n)*`)
  W newindent <siblings> <parent> <indentBy>     -> text                (`_get_indent()`)
  W commentfmt <indent> <value>                  -> text                (`BlockComment._format_value`)
  W indentof <raw>                               -> text                (`BlockComment._parse_value(raw)[0]`)

<store>    = tokens separated by ',' ("-" = empty), each  <id>:<kind>:<text>,  kind N(ewline) | W(hitespace) | O(ther)
<text>     = '.'-separated code points, "e" = empty (Driver/Util)
<side>     = b | a
<siblings> = texts separated by ',' ("-" = none);  <parent> = text or "-" (no parent indent: entries)
-/
open Autobean
namespace Driver

def decKind (s : String) : Spacing.Kind :=
  if s = "N" then .newline else if s = "W" then .whitespace else .other

def encKind : Spacing.Kind → String
  | .newline => "N"
  | .whitespace => "W"
  | .other => "O"

def decTk (s : String) : Option Spacing.Tk :=
  match s.splitOn ":" with
  | [i, k, t] => some ⟨i.toNat!, decKind k, decText t⟩
  | _ => none

def decSpStore (s : String) : Option (List Spacing.Tk) :=
  if s = "-" then some [] else (s.splitOn ",").mapM decTk

def decSide (s : String) : Option Spacing.Side :=
  if s = "b" then some .before else if s = "a" then some .after else none

def freshId (store : List Spacing.Tk) : Nat := store.foldl (fun m t => max m (t.id + 1)) 0

def encSpStore (fresh : Nat) (l : List Spacing.Tk) : String :=
  if l.isEmpty then "-" else
    ",".intercalate (l.map fun t => if t.id < fresh then toString t.id else s!"N:{encKind t.kind}:{encText t.text}")

def spacingStep (args : List String) : String :=
  match args with
  | ["get", st, f, l, sd] =>
    match decSpStore st, decSide sd with
    | some store, some side => encNats ((Spacing.getSpacing store f.toNat! l.toNat! side).map (·.id))
    | _, _ => "!bad-arg"
  | ["set", st, f, l, sd, txt] =>
    match decSpStore st, decSide sd with
    | some store, some side =>
      let fresh := freshId store
      encSpStore fresh (Spacing.setText store f.toNat! l.toNat! side fresh (decText txt))
    | _, _ => "!bad-arg"
  | ["totok", txt] =>
    let ps := Spacing.scanPieces .clean (decText txt)
    if ps.isEmpty then "-" else ",".intercalate (ps.map fun p => s!"{encKind p.1}:{encText p.2}")
  | ["lang", txt] => if Spacing.spacingLang (decText txt) then "1" else "0"
  | ["newindent", sib, par, iby] =>
    let siblings := if sib = "-" then [] else (sib.splitOn ",").map decText
    let parent := if par = "-" then none else some (decText par)
    encText (Indent.newIndent siblings parent (decText iby))
  | ["commentfmt", ind, v] => encText (Indent.commentFormat (decText ind) (decText v))
  | ["indentof", raw] => encText (Indent.indentOf (decText raw))
  | _ => "!bad-op"

end Driver
