import Autobean.Model.Tree
import Driver.Util
/-
Driver for the tree model (C11 deep copy, C20 equality, the structural invariant).  Stateless lock-step:
every line carries the documents it talks about.

  document  = <store> <tree>                       (two words)
  store     = `-` | tok,tok,…      tok = id:kind:text:claimed     (text as in Util.encText, claimed 0/1)
  tree      = prefix notation, ','-separated:
                t<id>                      leaf
                _                          absent optional child
                n<cls>:<tag>:<ind>:<k>     node, followed by its k fields      (ind = `-` for none)
                r<tag>:<ph>:<k>            repeated field, followed by its k items
  path      = `-` | k,k,…                          (field / item indexes from the root)

  T deepcopy <doc> <path>            → ok <store'> <tree'>   (fresh ids 0,1,… in store order, tag 0) | err <tag>
  T eq <docA> <docB>                 → true | false
  T eq <docA> <pathA> <docB> <pathB> → true | false | err no-such-path
  T inv <doc>                        → ok | <first violated clause>      (store tag 0)
  T tokens <doc> <path>              → ids of `tokensOf`
-/
open Autobean
namespace Driver

def treeParseTk (w : String) : Option TTk :=
  match w.splitOn ":" with
  | [i, k, t, c] => some ⟨i.toNat!, k.toNat!, decText t, c == "1"⟩
  | _ => none

def parseStore (w : String) : Option (List TTk) :=
  if w = "-" then some [] else (w.splitOn ",").mapM treeParseTk

def encStore (s : List TTk) : String :=
  if s.isEmpty then "-" else
    ",".intercalate (s.map fun t => s!"{t.id}:{t.kind}:{encText t.text}:{if t.claimed then 1 else 0}")

mutual
partial def parseTreeW : List String → Option (Tree × List String)
  | [] => none
  | w :: rest =>
    if w = "_" then some (.absent, rest)
    else if w.startsWith "t" then some (.tok (w.drop 1).toString.toNat!, rest)
    else if w.startsWith "n" then
      match (w.drop 1).toString.splitOn ":" with
      | [c, g, ind, k] =>
        match parseTreesW k.toNat! rest with
        | some (fs, rest') => some (.node c.toNat! g.toNat! (if ind = "-" then none else some (decText ind)) fs, rest')
        | none => none
      | _ => none
    else if w.startsWith "r" then
      match (w.drop 1).toString.splitOn ":" with
      | [g, ph, k] =>
        match parseTreesW k.toNat! rest with
        | some (is, rest') => some (.rep g.toNat! ph.toNat! is, rest')
        | none => none
      | _ => none
    else none
partial def parseTreesW : Nat → List String → Option (List Tree × List String)
  | 0, rest => some ([], rest)
  | k + 1, rest =>
    match parseTreeW rest with
    | some (t, rest') =>
      match parseTreesW k rest' with
      | some (ts, rest'') => some (t :: ts, rest'')
      | none => none
    | none => none
end

def parseTree (w : String) : Option Tree :=
  match parseTreeW (w.splitOn ",") with
  | some (t, []) => some t
  | _ => none

partial def encTreeW : Tree → List String
  | .tok i => [s!"t{i}"]
  | .absent => ["_"]
  | .node c g ind fs =>
    s!"n{c}:{g}:{match ind with | none => "-" | some x => encText x}:{fs.length}" :: (fs.map encTreeW).flatten
  | .rep g ph is => s!"r{g}:{ph}:{is.length}" :: (is.map encTreeW).flatten

def encTree (t : Tree) : String := ",".intercalate (encTreeW t)

def parseDoc (sw tw : String) : Option (List TTk × Tree) :=
  match parseStore sw, parseTree tw with
  | some s, some t => some (s, t)
  | _, _ => none

def treeStep (args : List String) : String :=
  match args with
  | ["deepcopy", sw, tw, pw] =>
    match parseDoc sw tw with
    | none => "!bad-doc"
    | some (s, t) =>
      match t.subAt (decNats pw) with
      | none => "err no-such-path"
      | some sub =>
        match deepcopy 0 0 s sub with
        | .ok (s', t') => s!"ok {encStore s'} {encTree t'}"
        | .error e => s!"err {e}"
  | ["eq", sa, ta, sb, tb] =>
    match parseDoc sa ta, parseDoc sb tb with
    | some (s, t), some (s', t') => toString (treeEq s s' t t')
    | _, _ => "!bad-doc"
  | ["eq", sa, ta, pa, sb, tb, pb] =>
    match parseDoc sa ta, parseDoc sb tb with
    | some (s, t), some (s', t') =>
      match t.subAt (decNats pa), t'.subAt (decNats pb) with
      | some x, some y => toString (treeEq s s' x y)
      | _, _ => "err no-such-path"
    | _, _ => "!bad-doc"
  | ["inv", sw, tw] =>
    match parseDoc sw tw with
    | none => "!bad-doc"
    | some (s, t) =>
      match tinvViolation 0 s t with
      | none => "ok"
      | some v => v
  | ["tokens", sw, tw, pw] =>
    match parseDoc sw tw with
    | none => "!bad-doc"
    | some (s, t) =>
      match t.subAt (decNats pw) with
      | none => "err no-such-path"
      | some sub => encNats (ids (tokensOf s sub))
  | _ => "!bad-op"

end Driver
