import Autobean.Model.Construct
import Autobean.Generated.Schema
import Driver.Util
/-
Driver for the `from_children` model (C15).  Stateless.

  C <ClassName> <field>=<arg> ...
    arg:  r:<tok>,<tok>,...        required child (its tokens)
          o:-   |  o:<tok>,...     optional child absent / present
          p:<item>;<item>;...      repeated field (items; `p:` = empty), item = <tok>,<tok>,...
    tok:  <TokenClass>~<text as code points>
  → ok <TokenClass>~<text> ...     the token list `from_children` emits, computed from the recipe and the
                                   separators EXTRACTED from /repo (Autobean.Generated.allClasses)
-/
open Autobean Autobean.Construct Autobean.Schema
namespace Driver

def parseTk (s : String) : Option Tk :=
  match s.splitOn "~" with
  | [k, t] => some ⟨k, decText t⟩
  | _ => none

def parseTks (s : String) : Option (List Tk) :=
  if s = "" then some [] else (s.splitOn ",").mapM parseTk

def sepTks (s : List (String × String)) : List Tk := s.map fun (k, t) => ⟨k, t.toList⟩

def encTk (t : Tk) : String := t.kind ++ "~" ++ encText t.text

def constructStep (args : List String) : String :=
  match args with
  | cls :: fieldArgs =>
    match Generated.allClasses.find? (·.name = cls) with
    | none => "!unknown-class"
    | some c =>
      let argOf (f : String) : Option String :=
        fieldArgs.findSome? fun a => if a.startsWith (f ++ "=") then some ((a.drop (f.length + 1)).toString) else none
      let pieces : Option (List Piece) := c.fromChildren.mapM fun e =>
        if e.startsWith "S:" then
          match ((e.drop 2).toString.splitOn "=") with
          | k :: rest => some (Piece.lit ⟨k, ("=".intercalate rest).toList⟩)
          | _ => none
        else
          let fname := if e.startsWith "F:" then (e.drop 2).toString else "_" ++ (e.drop 2).toString
          match c.fields.find? (·.name = fname), argOf fname with
          | some f, some a =>
            let body := (a.drop 2).toString
            if a.startsWith "r:" then (parseTks body).map Piece.child
            else if a.startsWith "o:" then
              let ch : Option (Option (List Tk)) := if body = "-" then some none else (parseTks body).map some
              ch.map fun ch => if f.kind = 2 then Piece.optR (sepTks f.seps) ch else Piece.optL (sepTks f.seps) ch
            else if a.startsWith "p:" then
              let items : Option (List (List Tk)) := if body = "" then some [] else (body.splitOn ";").mapM parseTks
              items.map fun items =>
                Piece.rep ⟨"Placeholder", []⟩ (sepTks (f.sepsBefore.getD f.seps)) (sepTks f.seps) items
            else none
          | _, _ => none
      match pieces with
      | none => "!bad-args"
      | some ps => "ok " ++ " ".intercalate ((assemble ps).map encTk)
  | _ => "!bad-op"

end Driver
