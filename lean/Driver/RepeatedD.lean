import Autobean.Model.Slots
import Autobean.Model.Repeated
import Driver.Util
/-
Driver for the slot / repeated-field models (C03, C05, C06, C19), LOCK-STEP WITH RESYNC and stateless:
every line carries the whole pre-state.

  token        id:kind:text          (text as in `Util`: '.'-separated code points, `e` = empty)
  token list   t,t,…   or `-`
  spans        first~last,…  or `-`  (token ids)
  value        token list of a free-standing node, or `A` for a node that is attached elsewhere
               (`detach()` / `_check_reusable` raise "Cannot reuse node")
  values       v/v/…  or `-`
  int          decimal, `N` for None

  R <op> <store> <ph> <items> <seps> <sepsBefore> <op arguments>
     op ∈ append v | insert i v | pop i | setitem i v | setslice a b k vs | delitem i | delslice a b k
          | extend vs | clear | dropmany nats
  R create_left|create_right <store> <pivot> <seps> <child>
  R remove_left <store> <pivot> <childLast>      R remove_right <store> <pivot> <childFirst>
  R replace <store> <oldFirst> <oldLast> <new>

Output: `ok <store'> <item spans as first~last POSITIONS in store'>` or `err <tag>`; tokens the model
allocated itself (separator copies) print `N` instead of an id.
-/
open Autobean Autobean.Seq Autobean.Rep
namespace Driver

def repDecTk (s : String) : Tk :=
  match s.splitOn ":" with
  | [i, k, t] => ⟨i.toNat!, k.toNat!, decText t⟩
  | _ => ⟨0, 0, []⟩

def decTks (s : String) : List Tk := if s = "-" then [] else (s.splitOn ",").map repDecTk

def decSpans (s : String) : List Span :=
  if s = "-" then [] else (s.splitOn ",").map fun w =>
    match w.splitOn "~" with
    | [a, b] => ⟨a.toNat!, b.toNat!⟩
    | _ => ⟨0, 0⟩

/-- `none` = attached value. -/
def decValue (s : String) : Option (List Tk) := if s = "A" then none else some (decTks s)

def decValues (s : String) : List (Option (List Tk)) :=
  if s = "-" then [] else (s.splitOn "/").map decValue

def repDecOptInt (s : String) : Option Int := if s = "N" then none else some (decInt s)

def repEncTk (ctr0 : Nat) (t : Tk) : String :=
  (if t.id ≥ ctr0 then "N" else toString t.id) ++ ":" ++ toString t.kind ++ ":" ++ encText t.text

def encTks (ctr0 : Nat) (ts : List Tk) : String :=
  if ts.isEmpty then "-" else ",".intercalate (ts.map (repEncTk ctr0))

def encPos (store : List Tk) (items : List Span) : String :=
  if items.isEmpty then "-" else
    ",".intercalate (items.map fun sp =>
      let f := match idxOf sp.first store with | some i => toString i | none => "?"
      let l := match idxOf sp.last store with | some i => toString i | none => "?"
      f ++ "~" ++ l)

def maxId (ts : List Tk) : Nat := ts.foldl (fun m t => max m t.id) 0

def allFree (vs : List (Option (List Tk))) : Option (List (List Tk)) := vs.mapM id

def reuse : String := "err ValueError:reuse"

def outSt (ctr0 : Nat) : R St → String
  | .ok st => "ok " ++ encTks ctr0 st.store ++ " " ++ encPos st.store st.items
  | .error e => "err " ++ e

def outStore (ctr0 : Nat) : R (List Tk) → String
  | .ok s => "ok " ++ encTks ctr0 s ++ " -"
  | .error e => "err " ++ e

def repOp (c : Cfg) (st : St) (ctr0 : Nat) (op : String) (args : List String) : String :=
  match op, args with
  | "append", [v] =>
    match decValue v with
    | none => reuse
    | some v => outSt ctr0 (Rep.append c st v)
  | "insert", [i, v] =>
    match decValue v with
    | none => reuse
    | some v => outSt ctr0 (Rep.insert c st (decInt i) v)
  | "pop", [i] => outSt ctr0 ((Rep.pop c st (decInt i)).map (·.1))
  | "setitem", [i, v] =>
    -- `item = items[index]` is evaluated before `value.detach()`
    match pyIndex (decInt i) st.items.length with
    | none => "err IndexError"
    | some _ =>
      match decValue v with
      | none => reuse
      | some v => outSt ctr0 (Rep.setItemInt c st (decInt i) v)
  | "setslice", [a, b, k, vs] =>
    match allFree (decValues vs) with
    | none => reuse
    | some vs => outSt ctr0 (Rep.setSlice c st (repDecOptInt a) (repDecOptInt b) (repDecOptInt k) vs)
  | "delitem", [i] => outSt ctr0 (Rep.delItemInt c st (decInt i))
  | "delslice", [a, b, k] => outSt ctr0 (Rep.delSlice c st (repDecOptInt a) (repDecOptInt b) (repDecOptInt k))
  | "extend", [vs] =>
    match allFree (decValues vs) with
    | none => reuse
    | some vs => outSt ctr0 (Rep.extend c st vs)
  | "clear", [] => outSt ctr0 (Rep.clear c st)
  | "dropmany", [ns] => outSt ctr0 (Rep.dropMany c st (decNats ns))
  | "dropmanypub", [ns] =>
    outSt ctr0 (Rep.dropManyPub c st (if ns = "-" then [] else (ns.splitOn ",").map decInt))
  | _, _ => "!bad-op"

def valueIds (vs : List (Option (List Tk))) : Nat :=
  vs.foldl (fun m v => match v with | some ts => max m (maxId ts) | none => m) 0

/-- Largest id mentioned in the op arguments (values are the only arguments carrying tokens). -/
def argMaxId (op : String) (args : List String) : Nat :=
  match op, args with
  | "append", [v] => valueIds [decValue v]
  | "insert", [_, v] => valueIds [decValue v]
  | "setitem", [_, v] => valueIds [decValue v]
  | "setslice", [_, _, _, vs] => valueIds (decValues vs)
  | "extend", [vs] => valueIds (decValues vs)
  | _, _ => 0

def repStep (args : List String) : String :=
  match args with
  | ["create_left", store, pivot, seps, child] =>
    let s := decTks store
    match decValue child with
    | none => reuse
    | some ch =>
      let ctr0 := max (maxId s) (maxId ch) + 1
      outStore ctr0 (Slots.createLeft s pivot.toNat! (copySeps (decTks seps) ctr0) ch)
  | ["create_right", store, pivot, seps, child] =>
    let s := decTks store
    match decValue child with
    | none => reuse
    | some ch =>
      let ctr0 := max (maxId s) (maxId ch) + 1
      outStore ctr0 (Slots.createRight s pivot.toNat! (copySeps (decTks seps) ctr0) ch)
  | ["remove_left", store, pivot, last] =>
    let s := decTks store
    outStore (maxId s + 1) (Slots.removeLeft s pivot.toNat! last.toNat!)
  | ["remove_right", store, pivot, first] =>
    let s := decTks store
    outStore (maxId s + 1) (Slots.removeRight s pivot.toNat! first.toNat!)
  | ["replace", store, f, l, new] =>
    let s := decTks store
    match decValue new with
    | none => reuse
    | some nw => outStore (max (maxId s) (maxId nw) + 1) (Slots.replaceNode s f.toNat! l.toNat! nw)
  | op :: store :: ph :: items :: seps :: sepsB :: rest =>
    let s := decTks store
    let ctr0 := max (maxId s) (argMaxId op rest) + 1
    let c : Cfg := ⟨decTks seps, decTks sepsB, ph.toNat!⟩
    repOp c ⟨s, decSpans items, ctr0⟩ ctr0 op rest
  | _ => "!bad-op"

end Driver
