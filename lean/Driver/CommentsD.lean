import Autobean.Model.Comments
import Autobean.Model.AutoClaim
import Driver.Util
/-
Driver for the comment-attribution model (C04/C14).  Stateless lock-step: every line carries the pre store.

  store   = `id:kind:text:claimed` joined by ',' (`-` = empty); kind ∈ p n w c m o; text as in Util; claimed 0/1
  items   = `first:last:isComment` joined by ',' (`-` = empty)
  set     = `*` (universe) | `-` (empty) | ids joined by ','

  M claimL <store> <slot|-> <start> <ignore01>          claim_leading_comment
  M claimT <store> <slot|-> <start> <ignore01>          claim_trailing_comment
  M unclaimL <store> <slot|->                           unclaim_leading_comment
  M unclaimT <store> <slot|->                           unclaim_trailing_comment
  M shift <store> <first> <last> <b|f>                  _shift_ignored
  M inter <store> <ph> <items> <mfirst> <mlast> <set>   claim_interleaving_comments
  M uninter <store> <items> <set>                       unclaim_interleaving_comments

Output: `ok <id:claimed,…> ret=<ids|-> [slot=<id|->] [items=<items>]` or `err <tag>`.

  M walk <store> <tree>                                 root.auto_claim_comments()  (Model/AutoClaim.lean)

  tree    = an s-expression without blanks, ',' between the elements of a list:
     node   = (S,<node id>,<leading comment|->,<trailing comment|->,field,…)   block-commentable model
            | (B,<0|1>,field,…)                                               other model; 1 = File (first/last = store ends)
     field  = (P)                      absent optional field            (fields in document order)
            | (P,<first>,<last>)       token / model without block comments
            | (C,node)                 present field that is a model taking part in attribution
            | (R,<rep id>,<placeholder>,<0|1 with comments>,entry,…)          repeated field, entries in order
     entry  = node | c<comment id>     (comment entries only in a field with comments)
  Output: `ok <id:claimed,…> L=<node:comment;…|-> T=<node:comment;…|-> R=<rep:e.e.e;…|-> F=<node:first:last;…|->
           calls=<L<start>|T<start>|I<ph>:<mfirst>:<mlast>,…|-> again=<same|diff|err:tag> hyp=<0|1|->`
     L/T  = filled leading/trailing slots, by node id;  R = entries of every repeated field in tree order, `n` = a model,
     `c<id>` = a comment;  F = first_token/last_token of every block-commentable model afterwards, in tree order;
     calls = the primitive calls in the order issued (claim_leading from <start>, claim_trailing from <start>,
     claim_interleaving_comments of the field with placeholder <ph> inside model.first_token..model.last_token);
     again = what a second walk on the result does (`same` = nothing observable changes);
     hyp  = `fileLayoutOk` (the hypothesis of `walk_all_claimed_partial`) for a File root, `-` otherwise.
-/
open Autobean.Comments
namespace Driver

def cmDecKind (s : String) : Kind :=
  match s with
  | "p" => .placeholder | "n" => .newline | "w" => .whitespace | "c" => .blockComment | "m" => .mark | _ => .other

def cmDecTk (s : String) : Option Tk :=
  match s.splitOn ":" with
  | [i, k, t, c] => some { id := i.toNat!, kind := cmDecKind k, text := decText t, claimed := c == "1" }
  | _ => none

def decStore (s : String) : Option Store :=
  if s = "-" then some [] else (s.splitOn ",").mapM cmDecTk

def cmDecItem (s : String) : Option Item :=
  match s.splitOn ":" with
  | [f, l, c] => some ⟨f.toNat!, l.toNat!, c == "1"⟩
  | _ => none

def cmDecItems (s : String) : Option (List Item) :=
  if s = "-" then some [] else (s.splitOn ",").mapM cmDecItem

def decSet (s : String) : Option (List Nat) :=
  if s = "*" then none else some (decNats s)

def cmEncStore (s : Store) : String :=
  if s.isEmpty then "-" else ",".intercalate (s.map fun t => s!"{t.id}:{if t.claimed then 1 else 0}")

def cmEncItems (l : List Item) : String :=
  if l.isEmpty then "-" else ",".intercalate (l.map fun i => s!"{i.first}:{i.last}:{if i.isComment then 1 else 0}")

def mkDoc (s : Store) (slot : Option Nat) (leading : Bool) : Doc :=
  let b := match slot with | some c => [(0, c)] | none => []
  { store := s, leading := if leading then b else [], trailing := if leading then [] else b, reps := [] }

/-! ### `M walk` -/

def sxTokens (s : String) : List String :=
  let (acc, cur) := s.toList.foldl (fun (st : List String × String) c =>
    let (acc, cur) := st
    if c = '(' || c = ')' then ((if cur.isEmpty then acc else cur :: acc) |> (toString c :: ·), "")
    else if c = ',' then ((if cur.isEmpty then acc else cur :: acc), "")
    else (acc, cur.push c)) ([], "")
  ((if cur.isEmpty then acc else cur :: acc)).reverse

structure WalkInit where
  leading : List (Nat × Nat) := []
  trailing : List (Nat × Nat) := []
  reps : List (Nat × List Item) := []

mutual
  partial def sxNode (ts : List String) (w : WalkInit) : Option (CNode × List String × WalkInit) :=
    match ts with
    | "(" :: "S" :: id :: le :: tr :: rest =>
      let n := id.toNat!
      let w := match decOptNat le with | some c => { w with leading := (n, c) :: w.leading } | none => w
      let w := match decOptNat tr with | some c => { w with trailing := (n, c) :: w.trailing } | none => w
      match sxFields rest w with
      | some (fs, rest', w') => some (.surround n (CFields.ofList fs), rest', w')
      | none => none
    | "(" :: "B" :: ws :: rest =>
      match sxFields rest w with
      | some (fs, rest', w') => some (.bare (ws == "1") (CFields.ofList fs), rest', w')
      | none => none
    | _ => none
  /-- fields up to and including the closing parenthesis of the enclosing node -/
  partial def sxFields (ts : List String) (w : WalkInit) : Option (List CField × List String × WalkInit) :=
    match ts with
    | ")" :: rest => some ([], rest, w)
    | "(" :: "P" :: ")" :: rest =>
      match sxFields rest w with
      | some (fs, r, w') => some (.plain none :: fs, r, w')
      | none => none
    | "(" :: "P" :: f :: l :: ")" :: rest =>
      match sxFields rest w with
      | some (fs, r, w') => some (.plain (some (f.toNat!, l.toNat!)) :: fs, r, w')
      | none => none
    | "(" :: "C" :: rest =>
      match sxNode rest w with
      | some (n, ")" :: rest', w') =>
        (match sxFields rest' w' with
         | some (fs, r, w'') => some (.child n :: fs, r, w'')
         | none => none)
      | _ => none
    | "(" :: "R" :: r :: ph :: wc :: rest =>
      match sxEntries rest w with
      | some (ns, its, rest', w') =>
        let w' := { w' with reps := w'.reps ++ [(r.toNat!, its)] }
        (match sxFields rest' w' with
         | some (fs, r', w'') => some (.rep r.toNat! ph.toNat! (wc == "1") (CNodes.ofList ns) :: fs, r', w'')
         | none => none)
      | none => none
    | _ => none
  /-- entries up to and including the closing parenthesis of the field -/
  partial def sxEntries (ts : List String) (w : WalkInit) : Option (List CNode × List Item × List String × WalkInit) :=
    match ts with
    | ")" :: rest => some ([], [], rest, w)
    | "(" :: _ =>
      match sxNode ts w with
      | some (n, rest, w') =>
        (match sxEntries rest w' with
         | some (ns, its, r, w'') => some (n :: ns, ⟨0, 0, false⟩ :: its, r, w'')
         | none => none)
      | none => none
    | t :: rest =>
      if t.startsWith "c" then
        let c := (t.drop 1).toString.toNat!
        match sxEntries rest w with
        | some (ns, its, r, w') => some (ns, ⟨c, c, true⟩ :: its, r, w')
        | none => none
      else none
    | [] => none
end

mutual
  partial def surroundsOf : CNode → List CNode
    | .surround id fs => .surround id fs :: (fs.toList.flatMap surroundsOfField)
    | .bare _ fs => fs.toList.flatMap surroundsOfField
  partial def surroundsOfField : CField → List CNode
    | .plain _ => []
    | .child n => surroundsOf n
    | .rep _ _ _ items => items.toList.flatMap surroundsOf
end

mutual
  partial def repsOf : CNode → List Nat
    | .surround _ fs => fs.toList.flatMap repsOfField
    | .bare _ fs => fs.toList.flatMap repsOfField
  partial def repsOfField : CField → List Nat
    | .plain _ => []
    | .child n => repsOf n
    | .rep r _ _ items => r :: items.toList.flatMap repsOf
end

def encPairs (l : List (Nat × Nat)) : String :=
  if l.isEmpty then "-" else ";".intercalate (l.map fun p => s!"{p.1}:{p.2}")

def encKinds (l : List (Option Nat)) : String :=
  ".".intercalate (l.map fun k => match k with | some c => s!"c{c}" | none => "n")

def encCall : Call → String
  | .claimLeading _ st _ => s!"L{st}"
  | .claimTrailing _ st _ => s!"T{st}"
  | .claimInter _ ph mf ml _ => s!"I{ph}:{mf}:{ml}"
  | .unclaimLeading n => s!"UL{n}"
  | .unclaimTrailing n => s!"UT{n}"
  | .unclaimInter r _ => s!"UI{r}"

def sortPairs (l : List (Nat × Nat)) : List (Nat × Nat) :=
  (l.toArray.qsort (fun a b => a.1 < b.1)).toList

def walkCmd (st tree : String) : String :=
  match decStore st, sxNode (sxTokens tree) {} with
  | some s, some (root, [], w) =>
    let d : Doc := { store := s, leading := w.leading, trailing := w.trailing, reps := w.reps }
    match walkNode d root with
    | .error e => "err " ++ e
    | .ok (d', calls) =>
      let ns := surroundsOf root
      let slot (l : List (Nat × Nat)) := sortPairs (ns.filterMap fun n =>
        match n with
        | .surround id _ => (lookup id l).map fun c => (id, c)
        | _ => none)
      let reps := ";".intercalate ((repsOf root).map fun r => s!"{r}:{encKinds (itemKinds (repItems r d'.reps))}")
      let fl := ";".intercalate (ns.map fun n =>
        match n with
        | .surround id _ => s!"{id}:{encOptNat (firstTok d' n)}:{encOptNat (lastTok d' n)}"
        | _ => "")
      let again := match walkNode d' root with
        | .error e => "err:" ++ e
        | .ok (d'', _) => if d''.obs == d'.obs then "same" else "diff"
      let hyp := match root with
        | .bare true (.cons (.rep r ph true items) .nil) => if fileLayoutOk d r ph items then "1" else "0"
        | _ => "-"
      let cs := if calls.isEmpty then "-" else ",".intercalate (calls.map encCall)
      s!"ok {cmEncStore d'.store} L={encPairs (slot d'.leading)} T={encPairs (slot d'.trailing)} R={if reps.isEmpty then "-" else reps} F={if fl.isEmpty then "-" else fl} calls={cs} again={again} hyp={hyp}"
  | _, _ => "!bad-arg"

def commentsStep (args : List String) : String :=
  match args with
  | ["walk", st, tree] => walkCmd st tree
  | ["shift", st, first, last, dir] =>
    match decStore st with
    | none => "!bad-store"
    | some s =>
      match shiftIgnored first.toNat! last.toNat! (dir == "b") s with
      | .error e => "err " ++ e
      | .ok s' => s!"ok {cmEncStore s'} ret=-"
  | ["inter", st, ph, items, mf, ml, set] =>
    match decStore st, cmDecItems items with
    | some s, some its =>
      let d : Doc := { store := s, leading := [], trailing := [], reps := [(0, its)] }
      match claimInter 0 ph.toNat! mf.toNat! ml.toNat! (decSet set) d with
      | .error e => "err " ++ e
      | .ok (d', ret) => s!"ok {cmEncStore d'.store} ret={encNats ret} items={cmEncItems (repItems 0 d'.reps)}"
    | _, _ => "!bad-arg"
  | ["uninter", st, items, set] =>
    match decStore st, cmDecItems items with
    | some s, some its =>
      let d : Doc := { store := s, leading := [], trailing := [], reps := [(0, its)] }
      match unclaimInter 0 (decSet set) d with
      | .error e => "err " ++ e
      | .ok (d', ret) => s!"ok {cmEncStore d'.store} ret={encNats ret} items={cmEncItems (repItems 0 d'.reps)}"
    | _, _ => "!bad-arg"
  | [call, st, slot, start, ig] =>
    match decStore st with
    | none => "!bad-store"
    | some s =>
      let leading := call == "claimL"
      if call != "claimL" && call != "claimT" then "!bad-op" else
      let d := mkDoc s (decOptNat slot) leading
      let r := if leading then claimLeading 0 start.toNat! (ig == "1") d else claimTrailing 0 start.toNat! (ig == "1") d
      match r with
      | .error e => "err " ++ e
      | .ok (d', ret) =>
        let sl := if leading then lookup 0 d'.leading else lookup 0 d'.trailing
        s!"ok {cmEncStore d'.store} ret={encOptNat ret} slot={encOptNat sl}"
  | [call, st, slot] =>
    match decStore st with
    | none => "!bad-store"
    | some s =>
      let leading := call == "unclaimL"
      if call != "unclaimL" && call != "unclaimT" then "!bad-op" else
      let d := mkDoc s (decOptNat slot) leading
      let (d', ret) := if leading then unclaimLeading 0 d else unclaimTrailing 0 d
      let sl := if leading then lookup 0 d'.leading else lookup 0 d'.trailing
      s!"ok {cmEncStore d'.store} ret={encOptNat ret} slot={encOptNat sl}"
  | _ => "!bad-op"

end Driver
