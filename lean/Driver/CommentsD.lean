import Autobean.Model.Comments
import Driver.Util
/-
Driver for the comment-attribution model (C04/C14).  Stateless lock-step: every line carries the pre store.

  store   = `id:kind:text:claimed` joined by ',' (`-` = empty); kind ∈ p n w c m o; text as in Util; claimed 0/1
  items   = `first:last:isComment` joined by ',' (`-` = empty)
  set     = `*` (universe) | `-` (empty) | ids joined by ','

  M claimL <store> <slot|-> <start> <ignore01>          claim_leading_comment
  M claimT <store> <slot|-> <start> <ignore01>          claim_trailing_comment
  M unclaimL <store> <slot|->                           unclaim_leading_comment
  M unclaimT <store> <slot|->                           unclaim_trailing_comment
  M shift <store> <first> <last> <b|f>                  _shift_ignored
  M inter <store> <ph> <items> <mfirst> <mlast> <set>   claim_interleaving_comments
  M uninter <store> <items> <set>                       unclaim_interleaving_comments

Output: `ok <id:claimed,…> ret=<ids|-> [slot=<id|->] [items=<items>]` or `err <tag>`.
-/
open Autobean.Comments
namespace Driver

def cmDecKind (s : String) : Kind :=
  match s with
  | "p" => .placeholder | "n" => .newline | "w" => .whitespace | "c" => .blockComment | "m" => .mark | _ => .other

def cmDecTk (s : String) : Option Tk :=
  match s.splitOn ":" with
  | [i, k, t, c] => some { id := i.toNat!, kind := cmDecKind k, text := decText t, claimed := c == "1" }
  | _ => none

def decStore (s : String) : Option Store :=
  if s = "-" then some [] else (s.splitOn ",").mapM cmDecTk

def cmDecItem (s : String) : Option Item :=
  match s.splitOn ":" with
  | [f, l, c] => some ⟨f.toNat!, l.toNat!, c == "1"⟩
  | _ => none

def cmDecItems (s : String) : Option (List Item) :=
  if s = "-" then some [] else (s.splitOn ",").mapM cmDecItem

def decSet (s : String) : Option (List Nat) :=
  if s = "*" then none else some (decNats s)

def cmEncStore (s : Store) : String :=
  if s.isEmpty then "-" else ",".intercalate (s.map fun t => s!"{t.id}:{if t.claimed then 1 else 0}")

def cmEncItems (l : List Item) : String :=
  if l.isEmpty then "-" else ",".intercalate (l.map fun i => s!"{i.first}:{i.last}:{if i.isComment then 1 else 0}")

def mkDoc (s : Store) (slot : Option Nat) (leading : Bool) : Doc :=
  let b := match slot with | some c => [(0, c)] | none => []
  { store := s, leading := if leading then b else [], trailing := if leading then [] else b, reps := [] }

def commentsStep (args : List String) : String :=
  match args with
  | ["shift", st, first, last, dir] =>
    match decStore st with
    | none => "!bad-store"
    | some s =>
      match shiftIgnored first.toNat! last.toNat! (dir == "b") s with
      | .error e => "err " ++ e
      | .ok s' => s!"ok {cmEncStore s'} ret=-"
  | ["inter", st, ph, items, mf, ml, set] =>
    match decStore st, cmDecItems items with
    | some s, some its =>
      let d : Doc := { store := s, leading := [], trailing := [], reps := [(0, its)] }
      match claimInter 0 ph.toNat! mf.toNat! ml.toNat! (decSet set) d with
      | .error e => "err " ++ e
      | .ok (d', ret) => s!"ok {cmEncStore d'.store} ret={encNats ret} items={cmEncItems (repItems 0 d'.reps)}"
    | _, _ => "!bad-arg"
  | ["uninter", st, items, set] =>
    match decStore st, cmDecItems items with
    | some s, some its =>
      let d : Doc := { store := s, leading := [], trailing := [], reps := [(0, its)] }
      match unclaimInter 0 (decSet set) d with
      | .error e => "err " ++ e
      | .ok (d', ret) => s!"ok {cmEncStore d'.store} ret={encNats ret} items={cmEncItems (repItems 0 d'.reps)}"
    | _, _ => "!bad-arg"
  | [call, st, slot, start, ig] =>
    match decStore st with
    | none => "!bad-store"
    | some s =>
      let leading := call == "claimL"
      if call != "claimL" && call != "claimT" then "!bad-op" else
      let d := mkDoc s (decOptNat slot) leading
      let r := if leading then claimLeading 0 start.toNat! (ig == "1") d else claimTrailing 0 start.toNat! (ig == "1") d
      match r with
      | .error e => "err " ++ e
      | .ok (d', ret) =>
        let sl := if leading then lookup 0 d'.leading else lookup 0 d'.trailing
        s!"ok {cmEncStore d'.store} ret={encOptNat ret} slot={encOptNat sl}"
  | [call, st, slot] =>
    match decStore st with
    | none => "!bad-store"
    | some s =>
      let leading := call == "unclaimL"
      if call != "unclaimL" && call != "unclaimT" then "!bad-op" else
      let d := mkDoc s (decOptNat slot) leading
      let (d', ret) := if leading then unclaimLeading 0 d else unclaimTrailing 0 d
      let sl := if leading then lookup 0 d'.leading else lookup 0 d'.trailing
      s!"ok {cmEncStore d'.store} ret={encOptNat ret} slot={encOptNat sl}"
  | _ => "!bad-op"

end Driver
