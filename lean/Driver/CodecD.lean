import Autobean.Model.Codec
import Driver.Util
/-
Driver for the token codecs (C12).  Stateless.
  K <class> format <value…>   -> <text>
  K <class> parse <text>      -> ok <value…> | !<tag>
  K <class> lexes <text>      -> some <lexeme> <rest> | none
  K str escape|unescape <text>, K bc splitlines <text>
classes: str ic bc tag link key bool flag date num acc cur
values: texts as code points; bc: <indent> <value>; bool: T|F; date: y m d; num: coeff exp.
-/
open Autobean.Codec
namespace Driver

def encLex : Option (Text × Text) → String
  | none => "none"
  | some (l, r) => s!"some {encText l} {encText r}"

def tf (b : Bool) : String := if b then "T" else "F"

def codecStep (args : List String) : String :=
  match args with
  | ["str", "format", v] => encText (fmtStr (decText v))
  | ["str", "parse", t] => "ok " ++ encText (parseStr (decText t))
  | ["str", "lexes", t] => encLex (lexStr (decText t))
  | ["str", "escape", t] => encText (escape (decText t))
  | ["str", "unescape", t] => encText (unescape (decText t))
  | ["str", "dom", _] => "T"
  | ["ic", "dom", v] => tf (domIC (decText v))
  | ["bc", "dom", i, v] => tf (domIndent (decText i) && domBCValue (decText v))
  | ["tag", "dom", v] => tf (domTag (decText v))
  | ["link", "dom", v] => tf (domTag (decText v))
  | ["key", "dom", v] => tf (domKey (decText v))
  | ["flag", "dom", v] => tf (domFlag (decText v))
  | ["acc", "dom", v] => tf (domAccount (decText v))
  | ["cur", "dom", v] => tf (domCurrency (decText v))
  | ["ic", "format", v] => encText (fmtIC (decText v))
  | ["ic", "parse", t] => "ok " ++ encText (parseIC (decText t))
  | ["ic", "lexes", t] => encLex (lexIC (decText t))
  | ["bc", "format", i, v] => encText (fmtBC (decText i) (decText v))
  | ["bc", "parse", t] =>
    match parseBC (decText t) with
    | .ok (i, v) => s!"ok {encText i} {encText v}"
    | .error e => "!" ++ e
  | ["bc", "lexes", t] => encLex (lexBC (decText t))
  | ["bc", "splitlines", t] => "|".intercalate ((splitLines (decText t)).map encText)
  | ["tag", "format", v] => encText (fmtTag (decText v))
  | ["tag", "parse", t] => "ok " ++ encText (parseTag (decText t))
  | ["tag", "lexes", t] => encLex (lexTag (decText t))
  | ["link", "format", v] => encText (fmtLink (decText v))
  | ["link", "parse", t] => "ok " ++ encText (parseLink (decText t))
  | ["link", "lexes", t] => encLex (lexLink (decText t))
  | ["key", "format", v] => encText (fmtKey (decText v))
  | ["key", "parse", t] => "ok " ++ encText (parseKey (decText t))
  | ["key", "lexes", t] => encLex (lexKey (decText t))
  | ["bool", "format", v] => encText (fmtBool (v == "T"))
  | ["bool", "parse", t] =>
    match parseBool (decText t) with
    | .ok b => if b then "ok T" else "ok F"
    | .error e => "!" ++ e
  | ["bool", "lexes", t] => encLex (lexBool (decText t))
  | ["flag", "format", v] => encText (fmtFlag (decText v))
  | ["flag", "parse", t] => "ok " ++ encText (parseFlag (decText t))
  | ["flag", "lexes", t] => encLex (lexFlag (decText t))
  | ["acc", "format", v] => encText (decText v)
  | ["acc", "parse", t] => "ok " ++ encText (decText t)
  | ["acc", "lexes", t] => encLex (lexAccount (decText t))
  | ["cur", "format", v] => encText (decText v)
  | ["cur", "parse", t] => "ok " ++ encText (decText t)
  | ["cur", "lexes", t] => encLex (lexCurrency (decText t))
  | ["date", "format", y, m, d] => encText (fmtDate ⟨y.toNat!, m.toNat!, d.toNat!⟩)
  | ["date", "parse", t] =>
    match parseDate (decText t) with
    | .ok v => s!"ok {v.y} {v.m} {v.d}"
    | .error e => "!" ++ e
  | ["date", "lexes", t] => encLex (lexDate (decText t))
  | ["num", "format", c, e] => encText (fmtNum ⟨c.toNat!, decInt e⟩)
  | ["num", "parse", t] =>
    match parseNum (decText t) with
    | .ok v => s!"ok {v.coeff} {v.exp}"
    | .error e => "!" ++ e
  | ["num", "lexes", t] => encLex (lexNumber (decText t))
  | _ => "!bad-op"

end Driver
