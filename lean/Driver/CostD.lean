import Autobean.Model.Cost
import Autobean.Model.Txn
import Driver.Util
/-
Driver for the cost group and the payee/narration group (C09), history mode.

  Q start <total:0|1> <comps>          comps: `-` or ','-separated  C:<per|->:<tot|->:<cur>  A:<n>:<cur>  N:<n>  U:<cur>
                                        D:<date>  L:<label>  X
  Q set <raw:0|1> <per|tot|cur|date|label|merge> <value|->      (merge: 0|1)
  Q fromvalue <per|-> <tot|-> <cur|-> <date|-> <label|-> <merge:0|1>
  Q tparse <s0|-> <s1|-> <s2|->        parsed children of a transaction header, before `from_parsed_children`
  Q tset <raw:0|1> <payee|narration> <value|->
  Q treparse                            print the header strings and parse them again (answer only; state kept)

Answers: `ok <dump>` / `err <tag> <dump>` (a refused assignment leaves the state unchanged).
Cost dump: `t=<0|1> comps=<comps> per= tot= cur= date= label= merge= canon=<0|1>`.
Transaction dump: `s=<s0>,<s1>,<s2> payee= narration= canon=<0|1>`.
-/
open Autobean
namespace Driver

structure CostWorld where
  cost : Cost.Cost := ⟨false, []⟩
  txn : Txn.Txn := ⟨none, none, none⟩

def decComp (s : String) : Option Cost.Comp :=
  match s.splitOn ":" with
  | ["C", p, t, c] => some (.compound (decOptNat p) (decOptNat t) c.toNat!)
  | ["A", n, c] => some (.amount n.toNat! c.toNat!)
  | ["N", n] => some (.number n.toNat!)
  | ["U", c] => some (.currency c.toNat!)
  | ["D", d] => some (.date d.toNat!)
  | ["L", l] => some (.label l.toNat!)
  | ["X"] => some .asterisk
  | _ => none

def encComp : Cost.Comp → String
  | .compound p t c => s!"C:{encOptNat p}:{encOptNat t}:{c}"
  | .amount n c => s!"A:{n}:{c}"
  | .number n => s!"N:{n}"
  | .currency c => s!"U:{c}"
  | .date d => s!"D:{d}"
  | .label l => s!"L:{l}"
  | .asterisk => "X"

def decComps (s : String) : Option (List Cost.Comp) :=
  if s = "-" then some [] else (s.splitOn ",").mapM decComp

def encComps (l : List Cost.Comp) : String :=
  if l.isEmpty then "-" else ",".intercalate (l.map encComp)

def costB01 (b : Bool) : String := if b then "1" else "0"

def dumpCost (c : Cost.Cost) : String :=
  s!"t={costB01 c.total} comps={encComps c.comps} per={encOptNat (Cost.per c)} tot={encOptNat (Cost.tot c)} " ++
  s!"cur={encOptNat (Cost.cur c)} date={encOptNat (Cost.date c)} label={encOptNat (Cost.label c)} " ++
  s!"merge={costB01 (Cost.merge c)} canon={costB01 (decide (Cost.Canon c))}"

def dumpTxn (t : Txn.Txn) : String :=
  s!"s={encOptNat t.s0},{encOptNat t.s1},{encOptNat t.s2} payee={encOptNat (Txn.payee t)} " ++
  s!"narration={encOptNat (Txn.narration t)} canon={costB01 (decide (Txn.Canon t))}"

def decAssign (f v : String) : Option Cost.Assign :=
  match f with
  | "per" => some (.per (decOptNat v))
  | "tot" => some (.tot (decOptNat v))
  | "cur" => some (.cur (decOptNat v))
  | "date" => some (.date (decOptNat v))
  | "label" => some (.label (decOptNat v))
  | "merge" => some (.merge (v = "1"))
  | _ => none

def costStep (w : CostWorld) (args : List String) : CostWorld × String :=
  match args with
  | ["start", t, comps] =>
    match decComps comps with
    | some l => let c : Cost.Cost := ⟨t = "1", l⟩; ({ w with cost := c }, "ok " ++ dumpCost c)
    | none => (w, "!bad-comps")
  | ["set", raw, f, v] =>
    match decAssign f v with
    | none => (w, "!bad-field")
    | some a =>
      let o : Cost.Op := ⟨raw = "1", a⟩
      match o.apply w.cost with
      | .ok c => ({ w with cost := c }, "ok " ++ dumpCost c)
      | .error e => (w, s!"err {e} " ++ dumpCost w.cost)
  | ["fromvalue", p, t, c, d, l, m] =>
    let r : Cost.Rec := ⟨decOptNat p, decOptNat t, decOptNat c, decOptNat d, decOptNat l, m = "1"⟩
    match Cost.fromValue r with
    | .ok c => ({ w with cost := c }, "ok " ++ dumpCost c)
    | .error e => (w, s!"err {e}")
  | ["tparse", a, b, c] =>
    let t := Txn.fromParsed (decOptNat a) (decOptNat b) (decOptNat c)
    ({ w with txn := t }, "ok " ++ dumpTxn t)
  | ["tset", raw, f, v] =>
    let a? : Option Txn.Assign := match f with
      | "payee" => some (.payee (decOptNat v))
      | "narration" => some (.narration (decOptNat v))
      | _ => none
    match a? with
    | none => (w, "!bad-field")
    | some a =>
      let t := (Txn.Op.mk (raw = "1") a).apply w.txn
      ({ w with txn := t }, "ok " ++ dumpTxn t)
  | ["treparse"] =>
    match Txn.parse (Txn.printed w.txn) with
    | some t => (w, "ok " ++ dumpTxn t)          -- the state is not replaced: the history continues on the same object
    | none => (w, "err ParseError " ++ dumpTxn w.txn)
  | _ => (w, "!bad-op")

end Driver
