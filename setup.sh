#!/bin/sh
# MANIFEST.setup_cmd: build the framework offline from files on disk.
set -e
cd "$(dirname "$0")"
mkdir -p evidence replays
python3 extract/extract.py /repo lean/Autobean/Generated
cd lean
lake build Autobean Driver
