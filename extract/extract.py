import sys
