#!/usr/bin/env python3
"""Translator (tie #1): reads the SOURCE TEXT of /repo (never imports it) with `ast` and regenerates
lean/Autobean/Generated/{Consts,Schema,Effects}.lean.  Files are rewritten only when their content changes.

usage: extract.py <repo root> <output dir>

What is extracted
* Consts  - the four load-factor constants of token_store.py (constant expressions evaluated), the PostLex split
            regex and token-type names, the spacing regex, the escape map of EscapedString, terminal definitions of
            beancount.lark that the codec/lexer models were written for, open() newline modes and the makedirs guard
            of editor.py.
* Schema  - for every class of models/generated/*.py: RULE, fields in declaration order with cardinality,
            separators / separators_before (token class + its DEFAULT text), pivot / first_token / last_token
            chains, the field lists of clone / _reattach / _eq, the from_children token sequence and reattach
            calls, the auto_claim_comments call sequence, iter_children_formatted order, raw-property wiring.
* Effects - a conservative, name-based write/call table over every def of the package (tests, modelgen,
            meta_models excluded): defs that store `_raw_text` / a token `size`, defs that call a store mutator,
            and for every read-only role (property getters, custom_property getters, __eq__/__hash__/__iter__/
            __len__/__getitem__/__contains__/tokens/print_model/__deepcopy__) the store mutators reachable from it
            through plain function calls and self-method calls.
An unreadable construct is recorded as `extractErrors` (the obligations require that list to be empty).
"""
from __future__ import annotations
import ast
import re
import sys
from pathlib import Path

ERRORS: list[str] = []


def lstr(s: str) -> str:
    out = ['"']
    for c in s:
        o = ord(c)
        if c == '"':
            out.append('\\"')
        elif c == '\\':
            out.append('\\\\')
        elif c == '\n':
            out.append('\\n')
        elif c == '\t':
            out.append('\\t')
        elif c == '\r':
            out.append('\\r')
        elif o < 32 or o == 127:
            out.append('\\x%02x' % o)
        else:
            out.append(c)
    out.append('"')
    return ''.join(out)


def llist(items, f=lambda x: x):
    return '[' + ', '.join(f(i) for i in items) + ']'


def write_if_changed(path: Path, text: str):
    if path.exists() and path.read_text() == text:
        return False
    path.parent.mkdir(parents=True, exist_ok=True)
    path.write_text(text)
    return True


# ---------------------------------------------------------------------------------------------------- Consts

def const_eval(node, env):
    return eval(compile(ast.Expression(node), '<const>', 'eval'), {'__builtins__': {}}, dict(env))


def extract_consts(repo: Path):
    out = {}
    # load factors
    tree = ast.parse((repo / 'autobean_refactor/token_store.py').read_text())
    env = {}
    names = ['_LOAD_FACTOR', '_DOUBLE_LOAD_FACTOR', '_HALF_LOAD_FACTOR', '_ONE_HALF_LOAD_FACTOR']
    for node in tree.body:
        if isinstance(node, ast.Assign) and len(node.targets) == 1 and isinstance(node.targets[0], ast.Name) and node.targets[0].id in names:
            try:
                env[node.targets[0].id] = const_eval(node.value, env)
            except Exception as e:
                ERRORS.append(f'token_store.{node.targets[0].id}: {e}')
    out['lf'] = [env.get(n) for n in names]
    if any(not isinstance(v, int) or v < 0 for v in out['lf']):
        ERRORS.append(f'load-factor constants not all natural numbers: {out["lf"]}')
        out['lf'] = [v if isinstance(v, int) and v >= 0 else 0 for v in out['lf']]
    # parser: PostLex constants
    ptree = ast.parse((repo / 'autobean_refactor/parser.py').read_text())
    postlex = {}
    for node in ast.walk(ptree):
        if isinstance(node, ast.ClassDef) and node.name == 'PostLex':
            for st in node.body:
                if isinstance(st, ast.Assign) and len(st.targets) == 1 and isinstance(st.targets[0], ast.Name):
                    n = st.targets[0].id
                    v = st.value
                    if isinstance(v, ast.Constant) and isinstance(v.value, str):
                        postlex[n] = v.value
                    elif isinstance(v, ast.Call) and getattr(v.func, 'attr', '') == 'compile' and v.args and isinstance(v.args[0], ast.Constant):
                        flags = ast.unparse(v.args[1]) if len(v.args) > 1 else ''
                        postlex[n] = v.args[0].value
                        postlex[n + '#flags'] = flags
    out['postlex'] = postlex
    for k in ('_NEWLINE_INDENT_COMMENT_SPLIT_RE', '_NEWLINE_INDENT_COMMENT', '_NEWLINE', '_EOL', '_INDENT_MARK', '_DEDENT_MARK', '_INDENT', '_BLOCK_COMMENT'):
        if k not in postlex:
            ERRORS.append(f'parser.PostLex.{k} not found')
    # builder dispatch constants: string literals compared in _build_tree
    disp = []
    for node in ast.walk(ptree):
        if isinstance(node, ast.FunctionDef) and node.name == '_build_tree':
            for c in ast.walk(node):
                if isinstance(c, ast.Constant) and isinstance(c.value, str):
                    disp.append(c.value)
    out['build_tree_literals'] = disp
    # spacing regex
    stree = ast.parse((repo / 'autobean_refactor/models/internal/spacing_accessors.py').read_text())
    out['spacing_re'] = ''
    for node in stree.body:
        if isinstance(node, ast.Assign) and getattr(node.targets[0], 'id', '') == '_SPACING_GROUP_RE':
            try:
                out['spacing_re'] = node.value.args[0].value
            except Exception:
                ERRORS.append('spacing regex unreadable')
    # escape map
    etree = ast.parse((repo / 'autobean_refactor/models/escaped_string.py').read_text())
    emap = []
    patt = {}
    for node in ast.walk(etree):
        if isinstance(node, ast.Assign) and len(node.targets) == 1 and isinstance(node.targets[0], ast.Name):
            n = node.targets[0].id
            if n.endswith('ESCAPE_MAP') and not n.endswith('UNESCAPE_MAP') and isinstance(node.value, ast.Dict):
                for k, v in zip(node.value.keys, node.value.values):
                    if isinstance(k, ast.Constant) and isinstance(v, ast.Constant):
                        emap.append((k.value, v.value))
            if n.endswith('_PATTERN') and isinstance(node.value, ast.Call) and node.value.args and isinstance(node.value.args[0], ast.Constant):
                patt[n.lstrip('_')] = node.value.args[0].value
    out['escape_map'] = emap
    out['escape_patterns'] = patt
    # lark terminals (raw source text of the definition, whitespace-normalised)
    terms = {}
    for line in (repo / 'autobean_refactor/beancount.lark').read_text().splitlines():
        m = re.match(r'^([A-Z_][A-Z0-9_]*)(\.\d+)?\s*:\s*(.*)$', line)
        if m:
            terms[m.group(1)] = (m.group(2) or '') + '|' + ' '.join(m.group(3).split())
    out['terminals'] = terms
    out['ignored'] = re.findall(r'^%ignore\s+(\w+)', (repo / 'autobean_refactor/beancount.lark').read_text(), re.M)
    # editor: newline modes and the makedirs guard
    src = (repo / 'autobean_refactor/editor.py').read_text()
    edt = ast.parse(src)
    opens = []
    for node in ast.walk(edt):
        if isinstance(node, ast.Call):
            fn = node.func
            name = fn.attr if isinstance(fn, ast.Attribute) else getattr(fn, 'id', '')
            if name in ('open', 'read_text', 'write_text'):
                nl = next((ast.unparse(k.value) for k in node.keywords if k.arg == 'newline'), 'ABSENT')
                mode = ast.unparse(node.args[1]) if name == 'open' and isinstance(fn, ast.Name) and len(node.args) > 1 else (
                    ast.unparse(node.args[0]) if name == 'open' and isinstance(fn, ast.Attribute) and node.args else "'r'")
                opens.append((name, mode, nl))
    out['editor_opens'] = opens
    guarded = False
    for node in ast.walk(edt):
        if isinstance(node, ast.If):
            if any(isinstance(c, ast.Call) and getattr(c.func, 'attr', '') == 'makedirs' for c in ast.walk(node)):
                guarded = True
    out['editor_makedirs_guarded'] = guarded
    return out


def emit_consts(c) -> str:
    lf = c['lf']
    pl = c['postlex']
    L = ['/- GENERATED by extract/extract.py from /repo sources. Do not edit. -/', 'import Autobean.Model.Store', '',
         'namespace Autobean.Generated', '',
         f'/-- token_store._LOAD_FACTOR etc., constant expressions evaluated. -/',
         f'def loadFactor : LF := ⟨{lf[0]}, {lf[1]}, {lf[2]}, {lf[3]}⟩', '',
         f'def postlexSplitRe : String := {lstr(pl.get("_NEWLINE_INDENT_COMMENT_SPLIT_RE", ""))}',
         f'def postlexSplitFlags : String := {lstr(pl.get("_NEWLINE_INDENT_COMMENT_SPLIT_RE#flags", ""))}',
         'def postlexNames : List (String × String) := ' + llist(
             [(k, pl.get(k, '')) for k in ('_NEWLINE_INDENT_COMMENT', '_NEWLINE', '_EOL', '_INDENT_MARK', '_DEDENT_MARK', '_INDENT', '_BLOCK_COMMENT')],
             lambda kv: f'({lstr(kv[0])}, {lstr(kv[1])})'),
         'def buildTreeLiterals : List String := ' + llist(c['build_tree_literals'], lstr),
         f'def spacingRe : String := {lstr(c["spacing_re"])}',
         'def escapeMap : List (String × String) := ' + llist(c['escape_map'], lambda kv: f'({lstr(kv[0])}, {lstr(kv[1])})'),
         'def escapePatterns : List (String × String) := ' + llist(sorted(c['escape_patterns'].items()), lambda kv: f'({lstr(kv[0])}, {lstr(kv[1])})'),
         'def terminals : List (String × String) := ' + llist(sorted(c['terminals'].items()), lambda kv: f'({lstr(kv[0])}, {lstr(kv[1])})'),
         'def ignoredTerminals : List String := ' + llist(c['ignored'], lstr),
         'def editorOpens : List (String × String × String) := ' + llist(c['editor_opens'], lambda t: f'({lstr(t[0])}, {lstr(t[1])}, {lstr(t[2])})'),
         f'def editorMakedirsGuarded : Bool := {"true" if c["editor_makedirs_guarded"] else "false"}',
         '', 'end Autobean.Generated', '']
    return '\n'.join(L)


# ---------------------------------------------------------------------------------------------------- Schema

def token_defaults(repo: Path):
    """class name -> DEFAULT text, for every token class with a literal DEFAULT."""
    d = {}
    for p in sorted((repo / 'autobean_refactor/models').rglob('*.py')):
        if p.name.endswith('_test.py'):
            continue
        try:
            tree = ast.parse(p.read_text())
        except SyntaxError as e:
            ERRORS.append(f'{p.name}: {e}')
            continue
        for node in ast.walk(tree):
            if isinstance(node, ast.ClassDef):
                for st in node.body:
                    if isinstance(st, ast.Assign) and len(st.targets) == 1 and getattr(st.targets[0], 'id', '') == 'DEFAULT':
                        try:
                            d[node.name] = const_eval(st.value, {})
                        except Exception:
                            pass
    return d


def parse_seps(node, defaults, where):
    """tuple of `X.from_default()` -> [(X, default text)]"""
    if node is None:
        return None
    if not isinstance(node, ast.Tuple):
        ERRORS.append(f'{where}: separators is not a tuple literal')
        return []
    out = []
    for e in node.elts:
        if isinstance(e, ast.Call) and isinstance(e.func, ast.Attribute) and e.func.attr == 'from_default' and isinstance(e.func.value, ast.Name):
            cls = e.func.value.id
            if cls not in defaults:
                ERRORS.append(f'{where}: no DEFAULT known for {cls}')
            out.append((cls, defaults.get(cls, '')))
        else:
            ERRORS.append(f'{where}: unreadable separator {ast.unparse(e)}')
    return out


def parse_chain(node, where):
    """`(self._a and self._a.last_token) or self._b.last_token or ...` -> [(field, border, guarded)]"""
    parts = node.values if isinstance(node, ast.BoolOp) and isinstance(node.op, ast.Or) else [node]
    out = []
    for p in parts:
        if isinstance(p, ast.BoolOp) and isinstance(p.op, ast.And) and len(p.values) == 2:
            a, b = p.values
            if (isinstance(a, ast.Attribute) and isinstance(a.value, ast.Name) and a.value.id == 'self' and
                    isinstance(b, ast.Attribute) and isinstance(b.value, ast.Attribute) and b.value.attr == a.attr):
                out.append((a.attr, b.attr, True))
                continue
        if isinstance(p, ast.Attribute) and isinstance(p.value, ast.Attribute) and isinstance(p.value.value, ast.Name) and p.value.value.id == 'self':
            out.append((p.value.attr, p.attr, False))
            continue
        ERRORS.append(f'{where}: unreadable chain part {ast.unparse(p)}')
    return out


FIELD_KINDS = {'required_field': 0, 'optional_left_field': 1, 'optional_right_field': 2, 'repeated_field': 3}


def field_ctor(value):
    """`internal.optional_left_field[T](separators=...)` -> (kind name, keywords) or None"""
    if not isinstance(value, ast.Call):
        return None
    f = value.func
    if isinstance(f, ast.Subscript):
        f = f.value
    name = f.attr if isinstance(f, ast.Attribute) else getattr(f, 'id', None)
    if name in FIELD_KINDS:
        return name, {k.arg: k.value for k in value.keywords}
    return None


def extract_class(cls: ast.ClassDef, defaults, mixin_fields, fname):
    where = f'{fname}:{cls.name}'
    info = {'name': cls.name, 'rule': '', 'fields': [], 'indent_by': False, 'pivots': {}, 'first': [], 'last': [],
            'clone': [], 'clone_indent_by': False, 'reattach': [], 'reattach_store': False, 'eq': [], 'eq_isinstance': '',
            'from_children': [], 'from_children_reattach': [], 'auto_claim': [], 'iter_children': [], 'props': [], 'pivot_decorators': [],
            'bases': [ast.unparse(b) for b in cls.bases]}
    uses_mixin = any('SurroundingCommentsMixin' in b for b in info['bases'])
    if uses_mixin:
        info['fields'].append(mixin_fields['_leading_comment'])
    for st in cls.body:
        if isinstance(st, ast.Assign) and len(st.targets) == 1 and isinstance(st.targets[0], ast.Name):
            n = st.targets[0].id
            if n == 'RULE' and isinstance(st.value, ast.Constant):
                info['rule'] = st.value.value
            fc = field_ctor(st.value)
            if fc:
                kind, kw = fc
                info['fields'].append({'name': n, 'kind': FIELD_KINDS[kind],
                                       'seps': parse_seps(kw.get('separators'), defaults, where + '.' + n) or [],
                                       'seps_before': parse_seps(kw.get('separators_before'), defaults, where + '.' + n)})
            elif isinstance(st.value, ast.Call) and 'data_field' in ast.unparse(st.value.func) and n == 'indent_by':
                info['indent_by'] = True
            elif isinstance(st.value, ast.Call):
                fn = ast.unparse(st.value.func)
                short = fn.split('.')[-1].split('[')[0]
                if short in ('optional_node_property', 'required_node_property', 'repeated_node_property',
                             'repeated_node_with_interleaving_comments_property'):
                    args = [ast.unparse(a).split('.')[-1] for a in st.value.args]
                    info['props'].append((n, short, args))
        elif isinstance(st, ast.FunctionDef):
            body = [b for b in st.body if not (isinstance(b, ast.Expr) and isinstance(b.value, ast.Constant))]
            if st.name.endswith('_pivot') and body and isinstance(body[-1], ast.Return):
                info['pivots'][st.name] = parse_chain(body[-1].value, where + '.' + st.name)
                info['pivot_decorators'].append((st.name, [ast.unparse(d).split('.')[-1] for d in st.decorator_list]))
            elif st.name in ('first_token', 'last_token') and body and isinstance(body[-1], ast.Return):
                info['first' if st.name == 'first_token' else 'last'] = parse_chain(body[-1].value, where + '.' + st.name)
            elif st.name == 'clone' and body and isinstance(body[-1], ast.Return) and isinstance(body[-1].value, ast.Call):
                call = body[-1].value
                for a in call.args[1:]:
                    m = re.match(r'type\(self\)\.(\w+)\.clone\(self\.(\w+), token_store, token_transformer\)$', ast.unparse(a))
                    if m and m.group(1) == m.group(2):
                        info['clone'].append(m.group(1))
                    else:
                        ERRORS.append(f'{where}.clone: unreadable argument {ast.unparse(a)}')
                        info['clone'].append('?' + ast.unparse(a))
                info['clone_indent_by'] = any(k.arg == 'indent_by' and ast.unparse(k.value) == 'self.indent_by' for k in call.keywords)
            elif st.name == '_reattach':
                for b in body:
                    s = ast.unparse(b)
                    if s == 'self._token_store = token_store':
                        info['reattach_store'] = True
                        continue
                    m = re.match(r'self\.(\w+) = type\(self\)\.(\w+)\.reattach\(self\.(\w+), token_store, token_transformer\)$', s)
                    if m and m.group(1) == m.group(2) == m.group(3):
                        info['reattach'].append(m.group(1))
                    else:
                        ERRORS.append(f'{where}._reattach: unreadable statement {s}')
            elif st.name == '_eq' and body and isinstance(body[-1], ast.Return):
                v = body[-1].value
                parts = v.values if isinstance(v, ast.BoolOp) and isinstance(v.op, ast.And) else [v]
                for p in parts:
                    s = ast.unparse(p)
                    m = re.match(r'isinstance\(other, (\w+)\)$', s)
                    if m:
                        info['eq_isinstance'] = m.group(1)
                        continue
                    m = re.match(r'self\.(\w+) == other\.(\w+)$', s)
                    if m and m.group(1) == m.group(2):
                        info['eq'].append(m.group(1))
                    else:
                        ERRORS.append(f'{where}._eq: unreadable conjunct {s}')
                        info['eq'].append('?' + s)
            elif st.name == 'from_children':
                for b in body:
                    if isinstance(b, ast.Assign) and getattr(b.targets[0], 'id', '') == 'tokens' and isinstance(b.value, ast.List):
                        for e in b.value.elts:
                            s = ast.unparse(e.value if isinstance(e, ast.Starred) else e)
                            m = re.match(r'cls\.(\w+)\.detach_with_separators\((\w+)\)$', s)
                            if m:
                                info['from_children'].append('F:' + m.group(1))
                                continue
                            m = re.match(r'(\w+)\.detach\(\)$', s)
                            if m:
                                info['from_children'].append('D:' + m.group(1))
                                continue
                            m = re.match(r'(\w+)\.from_default\(\)$', s)
                            if m:
                                if m.group(1) not in defaults:
                                    ERRORS.append(f'{where}.from_children: no DEFAULT known for {m.group(1)}')
                                info['from_children'].append('S:' + m.group(1) + '=' + str(defaults.get(m.group(1), '')))
                                continue
                            ERRORS.append(f'{where}.from_children: unreadable token element {s}')
                    elif isinstance(b, ast.Expr):
                        m = re.match(r'cls\.(\w+)\.reattach\((\w+), token_store\)$', ast.unparse(b))
                        if m:
                            info['from_children_reattach'].append(m.group(1))
            elif st.name == 'auto_claim_comments':
                for b in body:
                    s = ast.unparse(b)
                    m = re.match(r'self\.(claim_leading_comment|claim_trailing_comment)\(ignore_if_already_claimed=True\)$', s)
                    if m:
                        info['auto_claim'].append('self:' + m.group(1))
                        continue
                    m = re.match(r'type\(self\)\.(\w+)\.auto_claim_comments\(self\.(\w+)\)$', s)
                    if m and m.group(1) == m.group(2):
                        info['auto_claim'].append('field:' + m.group(1))
                        continue
                    m = re.match(r'self\.(\w+)\.auto_claim_comments\(\)$', s)
                    if m:
                        info['auto_claim'].append('prop:' + m.group(1))
                        continue
                    if s == 'pass':
                        continue
                    ERRORS.append(f'{where}.auto_claim_comments: unreadable statement {s}')
            elif st.name == 'iter_children_formatted':
                for b in body:
                    s = ast.unparse(b)
                    m = re.match(r'yield from type\(self\)\.(\w+)\.iter_children_formatted\(self\.(\w+), (True|False)\)$', s)
                    if m:
                        info['iter_children'].append('F:' + m.group(1))
                        continue
                    m = re.match(r'yield \((\w+)\.from_default\(\), (True|False)\)$', s)
                    if m:
                        info['iter_children'].append('S:' + m.group(1))
                        continue
    if uses_mixin:
        info['fields'].append(mixin_fields['_trailing_comment'])
    return info


def extract_schema(repo: Path):
    defaults = token_defaults(repo)
    mixin_fields = {}
    mtree = ast.parse((repo / 'autobean_refactor/models/internal/surrounding_comments.py').read_text())
    for node in ast.walk(mtree):
        if isinstance(node, ast.ClassDef) and node.name == 'SurroundingCommentsMixin':
            for st in node.body:
                if isinstance(st, ast.Assign) and len(st.targets) == 1 and isinstance(st.targets[0], ast.Name):
                    fc = field_ctor(st.value)
                    if fc:
                        kind, kw = fc
                        mixin_fields[st.targets[0].id] = {
                            'name': st.targets[0].id, 'kind': FIELD_KINDS[kind],
                            'seps': parse_seps(kw.get('separators'), defaults, 'SurroundingCommentsMixin') or [], 'seps_before': None}
    for k in ('_leading_comment', '_trailing_comment'):
        if k not in mixin_fields:
            ERRORS.append(f'SurroundingCommentsMixin.{k} not found')
            mixin_fields[k] = {'name': k, 'kind': 1, 'seps': [], 'seps_before': None}
    classes = []
    for p in sorted((repo / 'autobean_refactor/models/generated').glob('*.py')):
        if p.name == '__init__.py':
            continue
        try:
            tree = ast.parse(p.read_text())
        except SyntaxError as e:
            ERRORS.append(f'{p.name}: {e}')
            continue
        for node in tree.body:
            if isinstance(node, ast.ClassDef) and any('tree_model' in ast.unparse(d) for d in node.decorator_list):
                classes.append(extract_class(node, defaults, mixin_fields, p.name))
    return classes, defaults


def emit_schema(classes) -> str:
    def seps(s):
        return llist(s, lambda kv: f'({lstr(kv[0])}, {lstr(kv[1])})')

    def field(f):
        sb = 'none' if f['seps_before'] is None else f'(some {seps(f["seps_before"])})'
        return f'⟨{lstr(f["name"])}, {f["kind"]}, {seps(f["seps"])}, {sb}⟩'

    def chain(c):
        return llist(c, lambda t: f'⟨{lstr(t[0])}, {lstr(t[1])}, {"true" if t[2] else "false"}⟩')
    L = ['/- GENERATED by extract/extract.py from /repo/autobean_refactor/models/generated/*.py. Do not edit. -/',
         'import Autobean.Model.Schema', '', 'namespace Autobean.Generated', 'open Autobean.Schema', '']
    names = []
    for c in classes:
        ident = 'cls' + c['name']
        names.append(ident)
        L.append(f'def {ident} : ClassSchema :=')
        L.append(f'  {{ name := {lstr(c["name"])}, rule := {lstr(c["rule"])}, hasIndentBy := {"true" if c["indent_by"] else "false"},')
        L.append('    fields := ' + llist(c['fields'], field) + ',')
        L.append('    pivots := ' + llist(sorted(c['pivots'].items()), lambda kv: f'({lstr(kv[0])}, {chain(kv[1])})') + ',')
        L.append(f'    firstToken := {chain(c["first"])}, lastToken := {chain(c["last"])},')
        L.append(f'    cloneFields := {llist(c["clone"], lstr)}, cloneIndentBy := {"true" if c["clone_indent_by"] else "false"},')
        L.append(f'    reattachFields := {llist(c["reattach"], lstr)}, reattachStore := {"true" if c["reattach_store"] else "false"},')
        L.append(f'    eqFields := {llist(c["eq"], lstr)}, eqIsinstance := {lstr(c["eq_isinstance"])},')
        L.append(f'    fromChildren := {llist(c["from_children"], lstr)}, fromChildrenReattach := {llist(c["from_children_reattach"], lstr)},')
        L.append(f'    autoClaim := {llist(c["auto_claim"], lstr)}, iterChildren := {llist(c["iter_children"], lstr)},')
        L.append('    props := ' + llist(c['props'], lambda t: f'({lstr(t[0])}, {lstr(t[1])}, {llist(t[2], lstr)})') + ',')
        L.append('    pivotDecorators := ' + llist(c['pivot_decorators'], lambda t: f'({lstr(t[0])}, {llist(t[1], lstr)})') + ' }')
        L.append('')
    L.append('def allClasses : List ClassSchema := ' + llist(names))
    L += ['', 'end Autobean.Generated', '']
    return '\n'.join(L)


# ---------------------------------------------------------------------------------------------------- Effects

MUTATORS = {'splice', '_splice', 'insert_after', 'insert_before', 'remove', 'replace', 'update', '_update_raw_text'}
AMBIGUOUS = {'remove', 'replace', 'update'}  # also list/str/dict methods: count only on a store-looking receiver
READ_DUNDERS = {'__eq__', '__hash__', '__iter__', '__len__', '__getitem__', '__contains__', '__deepcopy__', '__repr__', '__reversed__'}
READ_NAMES = {'tokens', 'print_model', 'first_token', 'last_token', 'token_store', 'keys', 'values', 'items', 'clone', '_clone', '_eq'}


def role_of(fn: ast.FunctionDef):
    decs = [ast.unparse(d) for d in fn.decorator_list]
    if any(d.endswith('.setter') for d in decs):
        return 'setter'
    if any(d == 'property' or d.endswith('cached_property') for d in decs):
        return 'getter'
    if any(d.split('.')[-1] in ('custom_property', 'cached_custom_property') for d in decs):
        return 'getter'
    if fn.name in READ_DUNDERS or fn.name in READ_NAMES:
        return 'getter'
    if fn.name in ('_get', '__get__'):
        return 'getter'
    return 'method'


def extract_effects(repo: Path):
    defs = {}   # qualname -> info
    by_simple = {}
    pkg = repo / 'autobean_refactor'
    for p in sorted(pkg.rglob('*.py')):
        rel = p.relative_to(pkg)
        if p.name.endswith('_test.py') or rel.parts[0] in ('modelgen', 'meta_models', 'tests') or 'conftest' in p.name:
            continue
        try:
            tree = ast.parse(p.read_text())
        except SyntaxError as e:
            ERRORS.append(f'{rel}: {e}')
            continue
        mod = '.'.join(rel.with_suffix('').parts)

        def visit(node, prefix, cls):
            for ch in ast.iter_child_nodes(node):
                if isinstance(ch, ast.ClassDef):
                    visit(ch, prefix + [ch.name], ch.name)
                elif isinstance(ch, (ast.FunctionDef, ast.AsyncFunctionDef)):
                    q = '.'.join([mod] + prefix + [ch.name])
                    if q in defs:  # property getter + setter share a name
                        q = q + '#' + role_of(ch)
                    stores, muts, plain, selfm = set(), [], set(), set()
                    for n in ast.walk(ch):
                        if isinstance(n, ast.Attribute) and isinstance(n.ctx, ast.Store):
                            stores.add((ast.unparse(n.value), n.attr))
                        if isinstance(n, ast.Call):
                            f = n.func
                            if isinstance(f, ast.Attribute):
                                recv = ast.unparse(f.value)
                                if f.attr in MUTATORS and (f.attr not in AMBIGUOUS or 'store' in recv.lower()):
                                    muts.append((recv, f.attr))
                                if recv == 'self':
                                    selfm.add(f.attr)
                            elif isinstance(f, ast.Name):
                                plain.add(f.id)
                    defs[q] = {'mod': mod, 'cls': cls, 'name': ch.name, 'role': role_of(ch), 'stores': stores,
                               'muts': muts, 'plain': plain, 'selfm': selfm}
                    by_simple.setdefault((mod, ch.name), []).append(q)
                    visit(ch, prefix + [ch.name], cls)
        visit(tree, [], None)
    raw_text_writers = sorted(q for q, d in defs.items() if any(a == '_raw_text' for _, a in d['stores']))
    size_writers = sorted(q for q, d in defs.items() if any(a == 'size' and r in ('self', 'token') for r, a in d['stores']))
    touchers = sorted(q for q, d in defs.items() if d['muts'])
    # read-only roles reaching a mutator through plain calls (same module) and self-method calls (same class)
    reach_cache = {}

    def reach(q, seen):
        if q in reach_cache:
            return reach_cache[q]
        if q in seen:
            return set()
        seen = seen | {q}
        d = defs[q]
        r = {f'{recv}.{m}' for recv, m in d['muts']}
        for name in d['plain']:
            for q2 in by_simple.get((d['mod'], name), []):
                if defs[q2]['cls'] is None:
                    r |= {f'{name}>' + x for x in reach(q2, seen)}
        for name in d['selfm']:
            for q2 in by_simple.get((d['mod'], name), []):
                if defs[q2]['cls'] == d['cls'] and d['cls'] is not None and defs[q2]['role'] != 'setter':
                    r |= {f'self.{name}>' + x for x in reach(q2, seen)}
        reach_cache[q] = r
        return r
    getters_touching = []
    for q, d in sorted(defs.items()):
        if d['role'] == 'getter':
            r = reach(q, frozenset())
            if r:
                getters_touching.append((q, sorted(r)))
    n_getters = sum(1 for d in defs.values() if d['role'] == 'getter')
    return {'raw_text_writers': raw_text_writers, 'size_writers': size_writers, 'touchers': touchers,
            'getters_touching': getters_touching, 'n_defs': len(defs), 'n_getters': n_getters}


def emit_effects(e) -> str:
    L = ['/- GENERATED by extract/extract.py from /repo/autobean_refactor/**/*.py (tests, modelgen, meta_models excluded). Do not edit. -/',
         '', 'namespace Autobean.Generated', '',
         f'def nDefs : Nat := {e["n_defs"]}', f'def nGetters : Nat := {e["n_getters"]}',
         '/-- defs that store an attribute named `_raw_text` -/',
         'def rawTextWriters : List String := ' + llist(e['raw_text_writers'], lstr),
         '/-- defs that store `self.size` / `token.size` -/',
         'def sizeWriters : List String := ' + llist(e['size_writers'], lstr),
         '/-- defs that call a store mutator (splice, _splice, insert_after, insert_before, remove, replace, update on a store, _update_raw_text) -/',
         'def storeTouchers : List String := ' + llist(e['touchers'], lstr),
         '/-- read-only roles (getters, __eq__, __hash__, __iter__, __len__, tokens, print_model, __deepcopy__ …) from which a store mutator is reachable -/',
         'def gettersTouching : List (String × List String) := ' + llist(e['getters_touching'], lambda kv: f'({lstr(kv[0])}, {llist(kv[1], lstr)})'),
         '', 'end Autobean.Generated', '']
    return '\n'.join(L)



# ---------------------------------------------------------------------------------------------------- Refusals
# For every function that contains a `raise`: the raises some control-flow path reaches AFTER a mutation of the token
# store / of a repeated field's item list (a may-analysis over if / loops / try / match, helper calls resolved by name
# through a fixpoint).  The obligation (Obligations/Refusals.lean) is that there is none: whatever a function refuses,
# it refuses before it has changed anything (C19).

R_STORE_MUT = {'splice','_splice','insert_after','insert_before','remove','replace','update','_update_raw_text'}
R_AMBIG = {'remove','replace','update'}
R_CONTAINER_MUT = {'append','insert','extend','pop','clear','remove','sort','reverse','update','add','discard','setdefault','popitem'}


def extract_refusals(repo: Path):
    pkg = repo / 'autobean_refactor'
    mods = {}
    for p in sorted(pkg.rglob('*.py')):
        rel = p.relative_to(pkg)
        if p.name.endswith('_test.py') or rel.parts[0] in ('modelgen', 'meta_models', 'tests') or 'conftest' in p.name:
            continue
        try:
            mods[str(rel)] = ast.parse(p.read_text())
        except SyntaxError as e:
            ERRORS.append(f'{rel}: {e}')
    funcs = {}
    for rel, t in mods.items():
        for fn in [n for n in ast.walk(t) if isinstance(n, ast.FunctionDef)]:
            funcs.setdefault(fn.name, []).append((rel, fn))

    def direct_mut_expr(n, helper_names):
        for c in ast.walk(n):
            if isinstance(c, (ast.Lambda, ast.FunctionDef)): continue
            if isinstance(c, ast.Call):
                f = c.func
                if isinstance(f, ast.Attribute):
                    recv = ast.unparse(f.value)
                    if f.attr in R_STORE_MUT and (f.attr not in R_AMBIG or 'store' in recv.lower()): return f.attr
                    if f.attr in helper_names and (f.attr not in R_CONTAINER_MUT or recv == 'self'): return f.attr
                elif isinstance(f, ast.Name) and f.id in helper_names: return f.id
        return None
    def stmt_mut(s, helper_names):
        if isinstance(s, (ast.Assign, ast.AugAssign, ast.AnnAssign)):
            tgts = s.targets if isinstance(s, ast.Assign) else [s.target]
            for t in tgts:
                for x in ast.walk(t):
                    if isinstance(x, ast.Subscript) and isinstance(x.ctx, ast.Store) and ast.unparse(x.value).endswith('.items'):
                        return 'items-assign'
        if isinstance(s, ast.Delete):
            for t in s.targets:
                root = t
                while isinstance(root, (ast.Attribute, ast.Subscript)): root = root.value
                if isinstance(t, ast.Subscript) and ast.unparse(t.value).endswith('.items'): return 'items-del'
        return direct_mut_expr(s, helper_names)

    helper = set()
    changed = True
    while changed:
        changed = False
        for name, lst in funcs.items():
            if name in helper or (name.startswith('__') and name not in ('__setitem__', '__delitem__', '__set__', '__iadd__')):
                continue
            for rel, fn in lst:
                if any(stmt_mut(s, helper) for s in ast.walk(fn) if isinstance(s, ast.stmt) and s is not fn):
                    helper.add(name)
                    changed = True
                    break
    helper.discard('__init__')

    def analyse(fn):
        """Raises that some control-flow path reaches AFTER a store / item-list mutation (branch- and loop-aware, may-analysis)."""
        late = []

        def seq(stmts, states, loop):
            # states: set of "mutated-by" markers (None = nothing mutated yet) with which control can reach this point
            for s in stmts:
                if not states:
                    return states
                if isinstance(s, ast.Raise):
                    for m in states:
                        if m:
                            late.append((s.lineno - fn.lineno, m))
                    return set()
                if isinstance(s, ast.Return):
                    return set()
                if isinstance(s, ast.Continue):
                    loop['cont'] |= states
                    return set()
                if isinstance(s, ast.Break):
                    loop['brk'] |= states
                    return set()
                if isinstance(s, ast.If):
                    t = direct_mut_expr(s.test, helper)
                    st = {m or t for m in states}
                    states = seq(s.body, set(st), loop) | seq(s.orelse, set(st), loop)
                    continue
                if isinstance(s, (ast.For, ast.While)):
                    t = direct_mut_expr(s.iter if isinstance(s, ast.For) else s.test, helper)
                    entry = {m or t for m in states}
                    inner = {'cont': set(), 'brk': set()}
                    seen = set()
                    cur = set(entry)
                    for _ in range(3):           # iterate to a fixpoint over the (tiny) state set
                        out = seq(s.body, set(cur), inner) | inner['cont']
                        if out <= seen:
                            break
                        seen |= out
                        cur = cur | out
                    after = entry | seen
                    states = seq(s.orelse, set(after), loop) | inner['brk']
                    continue
                if isinstance(s, ast.Try):
                    body = seq(s.body, set(states), loop)
                    into_h = states | body | {m for m in [stmt_mut(x, helper) for x in ast.walk(s) if isinstance(x, ast.stmt)] if m}
                    hs = set()
                    for h in s.handlers:
                        hs |= seq(h.body, set(into_h), loop)
                    els = seq(s.orelse, set(body), loop)
                    states = seq(s.finalbody, els | hs, loop) if s.finalbody else (els | hs)
                    continue
                if isinstance(s, ast.With):
                    states = seq(s.body, states, loop)
                    continue
                if isinstance(s, ast.Match):
                    out = set()
                    for c in s.cases:
                        out |= seq(c.body, set(states), loop)
                    states = out | states      # no case may match
                    continue
                if isinstance(s, (ast.FunctionDef, ast.ClassDef)):
                    continue
                m2 = stmt_mut(s, helper)
                states = {m or m2 for m in states}
            return states
        seq(fn.body, {None}, {'cont': set(), 'brk': set()})
        return sorted(set(late))

    rows = []
    nfun = 0
    for rel, t in mods.items():
        def visit(node, prefix):
            nonlocal nfun
            for ch in ast.iter_child_nodes(node):
                if isinstance(ch, ast.ClassDef):
                    visit(ch, prefix + [ch.name])
                elif isinstance(ch, ast.FunctionDef):
                    if any(isinstance(n, ast.Raise) for n in ast.walk(ch)):
                        nfun += 1
                        q = rel[:-3].replace('/', '.') + '.' + '.'.join(prefix + [ch.name])
                        for off, by in analyse(ch):
                            rows.append((q, off, by))
                    visit(ch, prefix + [ch.name])
        visit(t, [])
    return {'late': rows, 'n_raising': nfun, 'helpers': sorted(helper)}


def emit_refusals(r):
    L = ['/- GENERATED by extract/extract.py from /repo/autobean_refactor/**/*.py. Do not edit. -/', '',
         'namespace Autobean.Generated', '',
         f'/-- Functions of the package that contain a `raise` statement. -/',
         f'def raisingFunctions : Nat := {r["n_raising"]}', '',
         '/-- (function, line offset of the raise, what had been mutated before) for every `raise` some path reaches after a',
         'mutation of the token store or of a repeated field\'s item list. -/',
         'def lateRaises : List (String × Nat × String) := ' + llist(r['late'], lambda t: f'({lstr(t[0])}, {t[1]}, {lstr(t[2])})'), '',
         'def mutatingHelpers : List String := ' + llist(r['helpers'], lstr), '',
         'end Autobean.Generated', '']
    return '\n'.join(L)


# ---------------------------------------------------------------------------------------------------- Caches
# Every place of the package that remembers a computed value: caching decorators (functools.cached_property, lru_cache,
# cache, cached_custom_property), descriptor classes derived from cached_custom_property, and attributes whose name says
# cache / memo.  The models treat every property as a function of the current content, except the cached VIEWS the Views
# model carries explicitly; the obligations (Obligations/Caches*.lean) pin the inventory per area.

def extract_caches(repo: Path):
    pkg = repo / 'autobean_refactor'
    rows = []
    for p in sorted(pkg.rglob('*.py')):
        rel = p.relative_to(pkg)
        if p.name.endswith('_test.py') or rel.parts[0] in ('modelgen', 'meta_models', 'tests') or 'conftest' in p.name:
            continue
        try:
            t = ast.parse(p.read_text())
        except SyntaxError as e:
            ERRORS.append(f'{rel}: {e}')
            continue

        def visit(node, prefix):
            for ch in ast.iter_child_nodes(node):
                if isinstance(ch, ast.ClassDef):
                    for b in ch.bases:
                        u = ast.unparse(b).split('[')[0]
                        if 'cache' in u.lower():
                            rows.append((str(rel), '.'.join(prefix + [ch.name]), 'base:' + u.split('.')[-1]))
                    visit(ch, prefix + [ch.name])
                elif isinstance(ch, (ast.FunctionDef, ast.AsyncFunctionDef)):
                    for d in ch.decorator_list:
                        u = ast.unparse(d).split('(')[0]
                        if 'cache' in u.lower():
                            rows.append((str(rel), '.'.join(prefix + [ch.name]), 'decorator:' + u.split('.')[-1]))
                    visit(ch, prefix + [ch.name])
                elif isinstance(ch, (ast.Assign, ast.AnnAssign)) and isinstance(getattr(ch, 'value', None), ast.Call):
                    u = ast.unparse(ch.value.func).split('[')[0]
                    if 'cache' in u.lower():
                        tg = ch.targets[0] if isinstance(ch, ast.Assign) else ch.target
                        rows.append((str(rel), '.'.join(prefix + [ast.unparse(tg)]), 'call:' + u.split('.')[-1]))
        visit(t, [])
        seen = set()
        for n in ast.walk(t):
            if isinstance(n, ast.Attribute) and isinstance(n.ctx, ast.Store) and any(k in n.attr.lower() for k in ('cache', 'memo')):
                if n.attr not in seen:
                    seen.add(n.attr)
                    rows.append((str(rel), n.attr, 'attribute'))
            if isinstance(n, ast.Call) and 'cache' in ast.unparse(n.func).lower() and not isinstance(n.func, ast.Attribute):
                pass
    return sorted(set(rows))


def extract_wrapper_setters(repo: Path):
    """Every descriptor `__set__` that replaces a whole repeated field (calls replace_node and stores the new wrapper in the
    instance dict): does it forget the model's cached views (a call to drop_cached_views)?"""
    pkg = repo / 'autobean_refactor'
    rows = []
    for p in sorted(pkg.rglob('*.py')):
        rel = p.relative_to(pkg)
        if p.name.endswith('_test.py') or rel.parts[0] in ('modelgen', 'meta_models', 'tests') or 'conftest' in p.name:
            continue
        try:
            t = ast.parse(p.read_text())
        except SyntaxError:
            continue
        for cls in [n for n in ast.walk(t) if isinstance(n, ast.ClassDef)]:
            for fn in cls.body:
                if not (isinstance(fn, ast.FunctionDef) and fn.name == '__set__'):
                    continue
                calls = [(n.lineno, ast.unparse(n.func).split('.')[-1]) for n in ast.walk(fn) if isinstance(n, ast.Call)]
                stores = [n.lineno for n in ast.walk(fn) if isinstance(n, ast.Subscript) and isinstance(n.ctx, ast.Store)
                          and ast.unparse(n.value).endswith('__dict__')]
                if not stores or not any(c == 'replace_node' for _, c in calls):
                    continue
                drops = any(c == 'drop_cached_views' for ln, c in calls)     # before or after the store: the two touch different keys
                rows.append((str(rel), cls.name, 'drops' if drops else 'keeps'))
    return sorted(set(rows))


def emit_caches(rows, setters=()):
    L = ['/- GENERATED by extract/extract.py from /repo/autobean_refactor/**/*.py. Do not edit. -/', '',
         'namespace Autobean.Generated', '',
         '/-- (file, qualified name, how) of everything in the package that remembers a computed value. -/',
         'def cachedDefs : List (String × String × String) := ' + llist(rows, lambda t: f'({lstr(t[0])}, {lstr(t[1])}, {lstr(t[2])})'), '',
         '/-- (file, descriptor class, drops | keeps): every `__set__` that replaces a whole repeated field, and whether it forgets',
         '    the cached views of the model afterwards. -/',
         'def wrapperSetters : List (String × String × String) := ' + llist(list(setters), lambda t: f'({lstr(t[0])}, {lstr(t[1])}, {lstr(t[2])})'), '',
         'end Autobean.Generated', '']
    return '\n'.join(L)


def main(argv):
    repo = Path(argv[1])
    out = Path(argv[2])
    consts = extract_consts(repo)
    classes, defaults = extract_schema(repo)
    effects = extract_effects(repo)
    changed = []
    if write_if_changed(out / 'Consts.lean', emit_consts(consts)):
        changed.append('Consts')
    if write_if_changed(out / 'Schema.lean', emit_schema(classes)):
        changed.append('Schema')
    if write_if_changed(out / 'Effects.lean', emit_effects(effects)):
        changed.append('Effects')
    if write_if_changed(out / 'Refusals.lean', emit_refusals(extract_refusals(repo))):
        changed.append('Refusals')
    if write_if_changed(out / 'Caches.lean', emit_caches(extract_caches(repo), extract_wrapper_setters(repo))):
        changed.append('Caches')
    errs = ['/- GENERATED by extract/extract.py. Constructs of the source the translator could not read. -/', '',
            'namespace Autobean.Generated', '', 'def extractErrors : List String := ' + llist(ERRORS, lstr), '', 'end Autobean.Generated', '']
    if write_if_changed(out / 'Errors.lean', '\n'.join(errs)):
        changed.append('Errors')
    print(f'extract: {len(classes)} classes, {effects["n_defs"]} defs, {len(ERRORS)} unreadable constructs; rewritten: {changed or "nothing"}')
    for e in ERRORS[:20]:
        print('  unreadable:', e)
    return 0


if __name__ == '__main__':
    sys.exit(main(sys.argv))
